#!/venv/bin/python
"""determinism.py [N]  - large-sample determinism proof for the simulator (not a registered check).

For every property and every profile of its quick AND thorough tiers, N seeds are run (a) sequentially in this
interpreter (PYTHONHASHSEED=0), (b) in a fork pool of 5 workers in shuffled order, (c) in a pool of 16 workers
in another order, (d) in a fresh interpreter under PYTHONHASHSEED=31337 in reversed order; all four full-trace
digests must agree.  Exit 0 iff no mismatch."""
import os, sys, json, random, subprocess, multiprocessing
if os.environ.get('PYTHONHASHSEED') is None:
    os.environ['PYTHONHASHSEED'] = '0'
    os.execv(sys.executable, [sys.executable] + sys.argv)
ROOT = os.path.dirname(os.path.dirname(os.path.abspath(__file__)))
sys.path.insert(0, ROOT)
from concurrent.futures import ProcessPoolExecutor
from sim import props, special

def dig(item):
    prop, prof, seed = item
    r = props.run_one(prop, props.make_scenario(prop, prof, seed))
    return (prop, prof, seed, r.get('digest') or r.get('harness'))

def main():
    if len(sys.argv) > 1 and sys.argv[1] == '--child':
        items = json.loads(sys.stdin.read())
        print(json.dumps([dig(tuple(i)) for i in reversed(items)]))
        return 0
    n = int(sys.argv[1]) if len(sys.argv) > 1 else 24
    items = []
    allp = sorted(props.BUS_PROPS) + sorted(special.PROFILES)
    for prop in allp:
        profs = props.profiles_for(prop, 'thorough') if prop in props.BUS_PROPS else props.profiles_for(prop)
        for prof, _ in profs:
            for s in range(n):
                items.append((prop, prof, 7_000_000 + s))
    print(len(items), 'runs x 4')
    a = {i[:3]: i[3] for i in map(dig, items)}
    ctx = multiprocessing.get_context('fork')
    res = [a]
    for workers, seed in ((5, 1), (16, 2)):
        sh = list(items); random.Random(seed).shuffle(sh)
        with ProcessPoolExecutor(workers, mp_context=ctx) as ex:
            res.append({i[:3]: i[3] for i in ex.map(dig, sh, chunksize=7)})
    p = subprocess.run([sys.executable, os.path.abspath(__file__), '--child'], input=json.dumps(items), capture_output=True, text=True,
                       env=dict(os.environ, PYTHONHASHSEED='31337'), timeout=7200)
    if p.returncode != 0:
        print(p.stderr[-2000:]); return 2
    res.append({tuple(i[:3]): i[3] for i in json.loads(p.stdout.strip().splitlines()[-1])})
    bad = [k for k in a if len({r.get(k) for r in res}) != 1]
    print('mismatches:', len(bad), bad[:10])
    return 1 if bad else 0

if __name__ == '__main__':
    sys.exit(main())
