#!/venv/bin/python
"""check.py <Cxx> [quick|thorough]  - decide one property by seeded simulation search.

exit 0  property held on everything explored (KNOWN-FINDING lines allowed)
exit 1  >= 1 line `VIOLATION property=<id> replay=<path>`
exit 2  harness error (machinery exception, nondeterminism, worker death, timeout)
"""
from __future__ import annotations

import os
import sys

if os.environ.get('PYTHONHASHSEED') != '0':
    os.environ['PYTHONHASHSEED'] = '0'
    os.execv(sys.executable, [sys.executable] + sys.argv)

ROOT = os.path.dirname(os.path.dirname(os.path.abspath(__file__)))
sys.path.insert(0, ROOT)
os.chdir(ROOT)

import collections  # noqa: E402
import faulthandler  # noqa: E402
import hashlib  # noqa: E402
import json  # noqa: E402
import multiprocessing  # noqa: E402
import random  # noqa: E402
import signal  # noqa: E402
import subprocess  # noqa: E402
import time  # noqa: E402
from concurrent.futures import ProcessPoolExecutor, wait, FIRST_COMPLETED  # noqa: E402

from sim import props, shrink  # noqa: E402

LEVELS = {
    'C10': 'fault_enumeration', 'C16': 'fault_enumeration', 'C17': 'fault_enumeration', 'C19': 'fault_enumeration',
}
BUDGET = {'quick': float(os.environ.get('VERIF_QUICK_S', 40)), 'thorough': float(os.environ.get('VERIF_THOROUGH_S', 600))}
CHUNK = 48  # multiple of 16: a chunk of a sched:* profile covers whole programs
RUN_CPU_CAP = 30  # CPU seconds per single simulated run
RUN_WALL_CAP = 240  # wall seconds per single simulated run (backstop)


def load_known():
    out = []
    p = os.path.join(ROOT, 'KNOWN_FINDINGS.jsonl')
    if os.path.exists(p):
        for line in open(p):
            line = line.strip()
            if line:
                out.append(json.loads(line))
    return out


def is_known(known_idx, v):
    """A violation is known iff every mechanism in its cause is listed as `known` for (property, clause)."""
    cause = v.get('cause', 'unexplained')
    if cause == 'unexplained':
        return None
    ids = []
    for part in cause.split('+'):
        e = known_idx.get((v['prop'], v['clause'], part))
        if e is None:
            return None
        ids.append(e['id'])
    return ids


class _Alarm(Exception):
    pass


def _on_alarm(signum, frame):
    raise _Alarm()


def run_guarded(prop, sc):
    # A single simulated run is capped in CPU time of this process (a busy machine - other checks, other jobs on the
    # same cores - must not turn a slow run into a harness error) and, as a backstop against a run that blocks
    # without burning CPU, in wall time.
    signal.signal(signal.SIGPROF, _on_alarm)
    signal.signal(signal.SIGALRM, _on_alarm)
    signal.setitimer(signal.ITIMER_PROF, RUN_CPU_CAP)
    signal.alarm(RUN_WALL_CAP)
    try:
        return props.run_one(prop, sc)
    except _Alarm:
        return {'end': 'harness:run_cap', 'harness': 'single run exceeded its CPU / wall cap'}
    finally:
        signal.setitimer(signal.ITIMER_PROF, 0)
        signal.alarm(0)


def work_chunk(args):
    """Worker: run a chunk of seeds of one profile; return an aggregate (small, picklable)."""
    prop, profile, seeds, known_keys, want_digests = args
    faulthandler.enable()
    agg = {
        'runs': 0, 'steps': 0, 'vt': 0.0, 'abstract': set(), 'abstract_nt': set(), 'nontrivial': 0,
        'faults_runs': collections.Counter(), 'faults_total': collections.Counter(), 'probes': collections.Counter(),
        'known': collections.Counter(), 'unknown': [], 'harness': [], 'digests': {}, 'ends': collections.Counter(),
        'samples': [], 'profile': profile, 'tainted': 0, 'per_program': {},
    }
    known_idx = {tuple(k): {'id': i} for k, i in known_keys}
    for seed in seeds:
        sc = props.make_scenario(prop, profile, seed)
        c0 = time.process_time()
        r = run_guarded(prop, sc)
        agg['max_cpu'] = max(agg.get('max_cpu', 0.0), time.process_time() - c0)
        agg['runs'] += 1
        if 'harness' in r:
            agg['harness'].append((profile, seed, str(r['harness'])[-600:]))
            continue
        agg['ends'][str(r['end'])] += 1
        agg['steps'] += r.get('steps', 0)
        agg['vt'] += r.get('vt', 0.0)
        if r.get('leftover'):
            agg['tainted'] += 1
        a = int(r['abstract'], 16)
        agg['abstract'].add(a)
        if profile.startswith('sched:'):
            agg['per_program'].setdefault(seed // 16, set()).add(a)
        if r.get('nontrivial'):
            agg['nontrivial'] += 1
            agg['abstract_nt'].add(a)
        for k, n in r.get('faults', {}).items():
            agg['faults_runs'][k] += 1
            agg['faults_total'][k] += n
        for k, n in r.get('probes', {}).items():
            agg['probes'][k] += n
        if seed in want_digests:
            agg['digests'][seed] = r['digest']
        if len(agg['samples']) < 1 and r.get('nontrivial'):
            agg['samples'].append({'profile': profile, 'seed': seed, 'scenario': sc, 'end': r['end'], 'steps': r.get('steps')})
        seen = set()
        for v in r.get('viol', []):
            ids = is_known(known_idx, v)
            if ids is not None:
                for i in ids:
                    if (i, v['clause']) not in seen:
                        seen.add((i, v['clause']))
                        agg['known'][i] += 1
            else:
                key = (v['clause'], v.get('cause'))
                if key not in seen and len(agg['unknown']) < 6:
                    seen.add(key)
                    agg['unknown'].append({'profile': profile, 'seed': seed, 'scenario': sc, 'viol': _jsonable(v)})
    agg['abstract'] = list(agg['abstract'])
    agg['abstract_nt'] = list(agg['abstract_nt'])
    agg['per_program'] = [len(v) for v in agg['per_program'].values()]
    return agg


def _jsonable(v):
    return json.loads(json.dumps(v, default=str))


def same_class(prop, sc, clause, cause):
    r = run_guarded(prop, sc)  # (wall-capped: a shrink candidate may be a much slower run than the original)
    if 'harness' in r:
        return None
    for v in r.get('viol', []):
        if v['clause'] == clause and v.get('cause') == cause:
            return v
    return None


def replay_in_fresh_process(path):
    p = subprocess.run([sys.executable, os.path.join(ROOT, 'sim', 'replay.py'), path], capture_output=True, text=True, timeout=120,
                       env=dict(os.environ, PYTHONHASHSEED='0'))
    return p.returncode, p.stdout + p.stderr


def write_replay(prop, sc, v, digest):
    os.makedirs(os.path.join(ROOT, 'replays'), exist_ok=True)
    body = {'property': prop, 'expect': {'clause': v['clause'], 'cause': v.get('cause')}, 'violation': _jsonable(v), 'digest': digest, 'scenario': sc}
    h = hashlib.sha256(json.dumps(body['scenario'], sort_keys=True).encode() + v['clause'].encode()).hexdigest()[:12]
    path = os.path.join(ROOT, 'replays', f'{prop}-{h}.json')
    json.dump(body, open(path, 'w'), indent=1)
    return path


def digests_other_hashseed(prop, items):
    """Re-run (profile, seed) pairs in a fresh interpreter under another PYTHONHASHSEED."""
    req = json.dumps({'prop': prop, 'items': items})
    env = dict(os.environ, PYTHONHASHSEED='4242', VERIF_DIGEST_MODE='1')
    p = subprocess.run([sys.executable, os.path.abspath(__file__), '--digests'], input=req, capture_output=True, text=True, timeout=600, env=env)
    if p.returncode != 0:
        raise RuntimeError('digest subprocess failed: ' + p.stderr[-800:])
    return json.loads(p.stdout.strip().splitlines()[-1])


def main():
    if len(sys.argv) >= 2 and sys.argv[1] == '--digests':
        req = json.loads(sys.stdin.read())
        out = {}
        # reversed order on purpose: position in the batch must not matter
        for profile, seed in reversed(req['items']):
            sc = props.make_scenario(req['prop'], profile, seed)
            r = props.run_one(req['prop'], sc)
            out[f'{profile}:{seed}'] = r.get('digest')
        print(json.dumps(out))
        return 0

    prop = sys.argv[1]
    tier = sys.argv[2] if len(sys.argv) > 2 else os.environ.get('VERIF_TIER', 'quick')
    if tier not in BUDGET:
        tier = 'quick'
    base_seed = int(os.environ.get('VERIF_SEED', '0'))
    nworkers = int(os.environ.get('VERIF_WORKERS', min(16, os.cpu_count() or 4)))
    t0 = time.time()
    print(f'check {prop} tier={tier} VERIF_SEED={base_seed} workers={nworkers} repo={os.environ.get("VERIF_REPO", "/repo")}', flush=True)

    known = load_known()
    known_idx = {}
    for e in known:
        if e['status'] == 'known' and e['property'] == prop:
            for cl in e['clauses']:
                known_idx[(prop, cl, e['cause'])] = e
    known_keys = [(list(k), e['id']) for k, e in known_idx.items()]

    violations = []  # (scenario, violation) to minimise + report
    harness_errors = []
    known_seen = collections.Counter()

    # 1. pinned reproducers of this property's findings
    from sim import special  # noqa
    for e in known:
        if e['property'] != prop:
            continue
        if not e.get('reproducer'):
            if e['status'] == 'known':
                print('KNOWN-FINDING: ' + e['line'].split('known: ', 1)[-1] + ' (no pinned reproducer for this property)', flush=True)
            continue
        sc = json.load(open(os.path.join(ROOT, e['reproducer'])))
        r = run_guarded(prop, sc)
        if 'harness' in r:
            harness_errors.append(('pinned:' + e['id'], 0, r['harness']))
            continue
        hits = [v for v in r.get('viol', []) if v['clause'] in e['clauses'] and (v.get('cause') == e['cause'] or e['cause'] in str(v.get('cause')).split('+') or e['status'] == 'fixed')]
        if e['status'] == 'known':
            if hits:
                print('KNOWN-FINDING: ' + e['line'].split('known: ', 1)[-1], flush=True)
                known_seen[e['id']] += 1
            else:
                print(f'note: known finding {e["id"]} did not reproduce from {e["reproducer"]} (informational)', flush=True)
        else:  # fixed: must stay fixed
            if hits:
                violations.append((sc, hits[0], 'regression of ' + e['id']))
        other = [v for v in r.get('viol', []) if is_known(known_idx, v) is None and v not in hits]
        for v in other[:2]:
            violations.append((sc, v, 'pinned ' + e['id']))

    # 2. exploration
    profs = props.profiles_for(prop, tier) if prop in props.BUS_PROPS else props.profiles_for(prop)
    total_w = sum(w for _, w in profs)
    rng = random.Random(base_seed * 1000003 + 17)
    next_seed = {p: base_seed * 10_000_000 for p, _ in profs}
    agg = {
        'runs': 0, 'steps': 0, 'vt': 0.0, 'abstract': set(), 'abstract_nt': set(), 'nontrivial': 0,
        'faults_runs': collections.Counter(), 'faults_total': collections.Counter(), 'probes': collections.Counter(),
        'ends': collections.Counter(), 'by_profile': collections.Counter(), 'tainted': 0,
    }
    samples = []
    digests = {}
    budget = BUDGET[tier]
    deadline = t0 + budget
    det_n = 6 if tier == 'quick' else 16  # seeds per profile whose digests are cross-checked
    ctx = multiprocessing.get_context('fork')
    unknown_examples = {}
    with ProcessPoolExecutor(max_workers=nworkers, mp_context=ctx) as pool:
        pending = set()

        def submit():
            x = rng.random() * total_w
            acc = 0
            for p, w in profs:
                acc += w
                if x <= acc:
                    break
            s0 = next_seed[p]
            next_seed[p] += CHUNK
            want = set(range(s0, s0 + det_n)) if s0 == base_seed * 10_000_000 else set()
            return pool.submit(work_chunk, (prop, p, list(range(s0, s0 + CHUNK)), known_keys, want))

        # make sure every profile gets its first chunk (digest samples), then fill by weight
        for p, _ in profs:
            s0 = next_seed[p]
            next_seed[p] += CHUNK
            pending.add(pool.submit(work_chunk, (prop, p, list(range(s0, s0 + CHUNK)), known_keys, set(range(s0, s0 + det_n)))))
        while len(pending) < nworkers * 2:
            pending.add(submit())
        while pending:
            done, pending = wait(pending, timeout=60, return_when=FIRST_COMPLETED)
            if not done:
                if time.time() > deadline + 600:
                    harness_errors.append(('pool', 0, 'workers stalled'))
                    break
                continue
            for f in done:
                try:
                    a = f.result()
                except BaseException as ex:
                    harness_errors.append(('worker', 0, repr(ex)))
                    continue
                for k in ('runs', 'steps', 'vt', 'nontrivial', 'tainted'):
                    agg[k] += a[k]
                agg['max_cpu'] = max(agg.get('max_cpu', 0.0), a.get('max_cpu', 0.0))
                agg['abstract'].update(a['abstract'])
                agg['abstract_nt'].update(a['abstract_nt'])
                for k in ('faults_runs', 'faults_total', 'probes', 'ends'):
                    agg[k].update(a[k])
                agg['by_profile'][a['profile']] += a['runs']
                agg.setdefault('per_program', []).extend(a.get('per_program', []))
                known_seen.update(a['known'])
                harness_errors.extend(a['harness'])
                for sd, d in a['digests'].items():
                    digests[(a['profile'], sd)] = d
                if len(samples) < 6:
                    samples.extend(a['samples'])
                for u in a['unknown']:
                    key = (u['viol']['clause'], u['viol'].get('cause'))
                    unknown_examples.setdefault(key, u)
                if time.time() < deadline and len(unknown_examples) < 8 and len(harness_errors) < 5:
                    pending.add(submit())
    explore_wall = time.time() - t0

    # 3. determinism self-test: same seeds, fresh interpreter, other PYTHONHASHSEED, reversed order
    det = {'checked': 0, 'mismatch': []}
    try:
        items = [[p, s] for (p, s) in sorted(digests)]
        if items:
            other = digests_other_hashseed(prop, items)
            for (p, s), d in digests.items():
                det['checked'] += 1
                if other.get(f'{p}:{s}') != d:
                    det['mismatch'].append((p, s))
    except BaseException as ex:
        harness_errors.append(('determinism', 0, repr(ex)))
    if det['mismatch']:
        harness_errors.append(('determinism', 0, f'trace digests differ across interpreters for {det["mismatch"][:5]}'))

    # 4. minimise + replay-confirm every unexplained / not-listed violation class
    for key, u in unknown_examples.items():
        violations.append((u['scenario'], u['viol'], f"{u['profile']}:{u['seed']}"))
    reported = []
    seen_classes = set()
    for sc, v, origin in violations:
        cls = (v['clause'], v.get('cause'))
        if cls in seen_classes:
            continue
        seen_classes.add(cls)
        try:
            t_shrink = time.time() + (90 if tier == 'quick' else 240)  # wall budget per violation class
            small, nruns = shrink.shrink(sc, lambda c: time.time() < t_shrink and same_class(prop, c, v['clause'], v.get('cause')) is not None,
                                         max_runs=300 if tier == 'quick' else 600)
            vv = same_class(prop, small, v['clause'], v.get('cause'))
            if vv is None:
                small, vv = sc, v
            r = props.run_one(prop, small)
            path = write_replay(prop, small, vv, r.get('digest'))
            rc, outp = replay_in_fresh_process(path)
            if rc != 1:
                harness_errors.append(('replay', 0, f'violation {cls} from {origin} did not replay from {path}: rc={rc} {outp[-300:]}'))
                continue
            reported.append((path, vv, origin, nruns))
            print(f'VIOLATION property={prop} replay={path}', flush=True)
            print(f'  clause={vv["clause"]} cause={vv.get("cause")} key={vv.get("key")} origin={origin} shrink_runs={nruns}', flush=True)
        except BaseException as ex:
            harness_errors.append(('minimise', 0, repr(ex)))

    wall = time.time() - t0
    level = LEVELS.get(prop, 'exploration')
    nt = props.NONTRIVIAL.get(prop) or special_rule(prop)
    zero_probes = [k for k in ('inline_processing', 'in_handler_await') if prop in props.BUS_PROPS and not agg['probes'].get(k)]
    evidence = {
        'property_id': prop, 'tier': tier, 'seed': base_seed, 'level': level, 'wall_s': round(wall, 2),
        'violations': len(reported),
        'coverage': {
            'evaluations': agg['runs'],
            'distinct_nontrivial': len(agg['abstract_nt']),
            'rule': ('one evaluation = one simulated run of a generated scenario (profile, seed) of the real bubus code on the virtual-time loop; '
                     'distinct = distinct abstract trace (sequence of record kind, bus, handler ordinal, structural event id; times and ids erased); '
                     'non-trivial = ' + (nt[0] if nt else 'n/a')),
            'samples': samples[:3],
            'runs_per_hour': int(agg['runs'] / max(explore_wall, 1e-6) * 3600),
            'simulated_seconds': round(agg['vt'], 3),
            'callbacks_executed': agg['steps'],
            'max_cpu_seconds_of_a_single_run': round(agg.get('max_cpu', 0.0), 2),
            'distinct_abstract_traces': len(agg['abstract']),
            'nontrivial_runs': agg['nontrivial'],
            'runs_by_profile': dict(agg['by_profile']),
            'schedule_search': ({'programs': len(agg.get('per_program', [])), 'schedules_per_program': 16,
                                 'mean_distinct_interleavings_per_program': round(sum(agg['per_program']) / len(agg['per_program']), 2),
                                 'max_distinct_interleavings_per_program': max(agg['per_program'])} if agg.get('per_program') else None),
            'run_endings': dict(agg['ends']),
            'fault_kinds_fired': {k: {'runs': agg['faults_runs'][k], 'total': agg['faults_total'][k]} for k in sorted(agg['faults_runs'])},
            'probes': dict(agg['probes']),
            'probes_at_zero': zero_probes,
            'determinism_selftest': {'seeds_rechecked_in_fresh_interpreter_other_hashseed': det['checked'], 'mismatches': len(det['mismatch'])},
            'known_findings_seen': dict(known_seen),
            'runs_with_undrained_tasks': agg['tainted'],
            'components': {
                'real': ['bubus.service', 'bubus.models', 'bubus.helpers', 'bubus.logging', 'pydantic', 'asyncio tasks/futures/queues/timeouts'],
                'simulated': ['event loop clock+selector (sim.loop.SimLoop)', 'datetime.now', 'time.time', 'EventBus.all_instances order', 'WAL file system (anyio.open_file, Path.mkdir)'],
                'not_simulated': ['multiprocess (portalocker) semaphores', 'psutil overload check (disabled)'],
            },
            'exhaustive': False,
        },
        'assumptions': [
            'asyncio ready-queue FIFO and timer ordering are relied upon as the stdlib contract (not permuted)',
            'scenario programs (handlers/callers) are the workload: <=5 buses, depth <=4, see DESIGN.md section 3',
            'a clean batch is evidence, not proof: the search samples schedules',
        ],
    }
    os.makedirs(os.path.join(ROOT, 'evidence'), exist_ok=True)
    if not os.environ.get('VERIF_NO_EVIDENCE'):  # (mutant runs against scratch copies must not overwrite evidence)
        json.dump(evidence, open(os.path.join(ROOT, 'evidence', f'{prop}.json'), 'w'), indent=1, default=str)
    print(f'{prop}: runs={agg["runs"]} nontrivial={agg["nontrivial"]} distinct_nt={len(agg["abstract_nt"])} wall={wall:.1f}s '
          f'max_run_cpu={agg.get("max_cpu", 0.0):.1f}s known={dict(known_seen)} violations={len(reported)} harness_errors={len(harness_errors)} det_checked={det["checked"]}', flush=True)
    if harness_errors:
        for h in harness_errors[:8]:
            print('HARNESS-ERROR', str(h)[:700], flush=True)
        return 2 if not reported else 1
    return 1 if reported else 0


def special_rule(prop):
    try:
        from sim import special
        return special.NONTRIVIAL.get(prop)
    except Exception:
        return None


if __name__ == '__main__':
    sys.exit(main())
