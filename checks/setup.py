#!/venv/bin/python
"""setup: verify the simulator can import the working tree of /repo and is deterministic (20-seed smoke)."""
import os, sys, subprocess, json
ROOT = os.path.dirname(os.path.dirname(os.path.abspath(__file__)))
sys.path.insert(0, ROOT)
code = ("import sys; sys.path.insert(0, %r); from sim import props; import json; "
        "print(json.dumps([props.run_one('C01', props.make_scenario('C01','multi',s))['digest'] for s in range(20)]))" % ROOT)
outs = []
for hs in ('0', '977'):
    p = subprocess.run([sys.executable, '-c', code], capture_output=True, text=True, env=dict(os.environ, PYTHONHASHSEED=hs), timeout=300)
    if p.returncode != 0:
        print(p.stderr[-2000:]); sys.exit(2)
    outs.append(json.loads(p.stdout.strip().splitlines()[-1]))
if outs[0] != outs[1]:
    print('nondeterministic smoke run'); sys.exit(2)
print('setup ok: bubus imported from', os.environ.get('VERIF_REPO', '/repo'), '- 20-seed determinism smoke passed')
