#!/bin/bash
# mutant.sh <patch-file | revert:COMMIT> <prop> [more props...]   (dev tool)
# Applies a patch to a scratch copy of /repo's package, runs the quick checks against it, removes the copy.
set -u
P="$1"; shift
D=$(mktemp -d /tmp/mut.XXXXXX)
mkdir -p "$D/repo"; cp -r /repo/bubus "$D/repo/"; cp /repo/pyproject.toml "$D/repo/" 2>/dev/null
cd "$D/repo"
if [[ "$P" == revert:* ]]; then git -C /repo show "${P#revert:}" -- bubus | patch -R -p1 -s || { echo PATCH-FAILED; rm -rf "$D"; exit 9; }
else patch -p1 -s < "$P" || { echo PATCH-FAILED; rm -rf "$D"; exit 9; }; fi
cd /verif
for prop in "$@"; do
  VERIF_REPO="$D/repo" VERIF_QUICK_S="${VERIF_QUICK_S:-15}" VERIF_NO_EVIDENCE=1 timeout 900 /venv/bin/python checks/check.py "$prop" quick 2>&1 | grep -E "^VIOLATION|^  clause|^C[0-9]+:|HARNESS" | head -8
  echo "exit=${PIPESTATUS[0]}"
done
rm -rf "$D"
