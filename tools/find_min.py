"""find_min.py <prop> <clause> <cause> <profile> <out.json>: find + shrink a minimal scenario of a violation class (dev tool)."""
import sys, json
sys.path.insert(0, '/verif')
from sim import props, shrink
prop, clause, cause, profile, out = sys.argv[1:6]
for seed in range(3000):
    sc = props.make_scenario(prop, profile, seed)
    r = props.run_one(prop, sc)
    hit = [v for v in r.get('viol', []) if v['clause'] == clause and v.get('cause') == cause]
    if hit:
        def still(c):
            rr = props.run_one(prop, c)
            return any(v['clause'] == clause and v.get('cause') == cause for v in rr.get('viol', []))
        small, n = shrink.shrink(sc, still, 800)
        small['profile'] = 'pinned/' + out.split('/')[-1].split('.')[0]
        small.pop('seed', None)
        json.dump(small, open(out, 'w'))
        print('seed', seed, 'shrink runs', n); print(json.dumps(small)); break
else:
    print('not found')
