"""Regenerates KNOWN_FINDINGS.jsonl from the table below (run by hand; the file is committed and
never written by a check)."""
import json
HANG = lambda p: [f'{p}.hang']
K = []
import os
def known(fid, prop, clauses, what, repro=None):
    if repro == '' and os.path.exists(f'/verif/findings/{fid}_{prop}.json'):
        repro = f'findings/{fid}_{prop}.json'  # produced by tools/pin_all.py
    K.append({'id': fid, 'property': prop, 'status': 'known', 'cause': fid, 'clauses': clauses,
              'reproducer': repro if repro is not None else f'findings/{fid}.json',
              'line': f'known: property={prop} {what} [{fid}]'})
def fixed(fid, prop, clauses, commit, what, repro=None):
    K.append({'id': fid, 'property': prop, 'status': 'fixed', 'cause': fid, 'clauses': clauses, 'commit': commit,
              'reproducer': repro if repro is not None else f'findings/{fid}.json',
              'line': f'fixed: property={prop} {commit} {what} [{fid}]'})

F0 = 'an awaiting handler drains unrelated events at the queue heads inside the await window'
known('F0', 'C05', ['C05.unrelated_in_window'], F0)
F1 = 'in-handler await gives up after 1000 polls and returns the child still pending when a run loop had already dequeued it (and blocks on the global lock)'
fixed('F1', 'C04', ['C04.child_incomplete_at_return', 'C04.descendant_incomplete', 'C04.results_not_terminal'], '84bdfef', F1)
F2 = 'same handler recursing >= 3 levels: the recursion guard raises inside process_event, the event never completes'
known('F2', 'C01', ['C01.missing'], 'same handler recursing >= 3 levels: the recursion guard refuses to run the handler for the third-level event (recorded as an error result of that handler since 95060a3)', 'findings/F2_C01.json')
F4 = 'an event accepted by several buses (forwarding / re-dispatch) signals completion after the first bus; later buses add results to the completed event'
fixed('F4', 'C03', ['C03.descendant_incomplete', 'C03.incomplete_at_return', 'C03.results_not_terminal'], '2d13127', F4)
fixed('F4', 'C08', ['C08.changed_after_complete'], '2d13127', F4, 'findings/F4_c08.json')
fixed('F4', 'C04', ['C04.descendant_incomplete', 'C04.child_incomplete_at_return', 'C04.results_not_terminal'], '2d13127', F4, 'findings/F4_C04.json')
F5b = 'a handler timeout aborts an UNRELATED event that its await loop was draining inline'
F5b_left = F5b + ': the handlers of that event that had not started are recorded as cancelled and never run (the event itself completes since 4bfc020)'
known('F5b', 'C01', ['C01.missing'], F5b_left, 'findings/F5b_C01.json')
known('F5b', 'C14', ['C14.accepted_missing'], F5b_left, '')
F5b_was = F5b + '; that event never completed'
fixed('F5b', 'C10', ['C10.event_incomplete', 'C10.result_left_nonterminal', 'C10.hang'], '4bfc020', F5b_was, 'findings/F5b.json')
fixed('F5b', 'C01', ['C01.hang'], '4bfc020', F5b_was, 'findings/F5b_C01.json')
fixed('F5b', 'C03', ['C03.hang', 'C03.descendant_incomplete'], '4bfc020', F5b_was + ', awaiting it hung', 'findings/F5b_C03.json')
fixed('F5b', 'C04', ['C04.child_incomplete_at_return', 'C04.descendant_incomplete', 'C04.hang', 'C04.released_only_by_timeout'], '4bfc020', F5b_was + '; an in-handler await of it returned it incomplete', '')
fixed('F5b', 'C14', ['C14.hang', 'C14.parent_never_completes'], '4bfc020', F5b_was, '')
fixed('F5b', 'C15', ['C15.hang'], '4bfc020', F5b_was + ' and stayed started in history, wait_until_idle never returned', 'findings/F5b_C15.json')
fixed('F9', 'C09', ['C09.event_bus'], '27bab07', 'event.event_bus returned the last bus of event_path, wrong for handlers that run after the event was forwarded')
F11 = 'an in-flight (started) parent is evicted from a small history while its children outnumber max_history_size; upward completion cannot find it'
fixed('F11', 'C13', ['C13.hang'], '9cd3959', F11 + ' and awaiting it hangs')
for p in ('C01', 'C03', 'C04', 'C07', 'C10', 'C11', 'C14', 'C15', 'C17', 'C18'):
    cl = HANG(p) + ({'C10': ['C10.event_incomplete', 'C10.result_left_nonterminal'], 'C03': ['C03.descendant_incomplete'], 'C04': ['C04.child_incomplete_at_return', 'C04.descendant_incomplete'],
                     'C14': ['C14.parent_never_completes'], 'C11': ['C11.event_incomplete'], 'C17': ['C17.C01_hang', 'C17.event_incomplete']}.get(p, []))
    fixed('F11', p, cl, '9cd3959', F11, f'findings/F11_{p}.json' if os.path.exists(f'/verif/findings/F11_{p}.json') else '')
fixed('F16', 'C16', ['C16.hang'], 'a2fe25b', 'dispatch()/wait_until_idle() on a bus after stop() began restarts a run loop on the shut-down queue, which spins forever without sleeping (livelock; stop() itself can then cancel the wrong task)')
known('F20', 'C16', ['C16.handler_after_stop'], 'an event of the stopped bus whose inline processing (by an awaiting handler) had begun before stop() returned still starts its remaining handlers afterwards')
known('F21', 'C17', ['C17.written_before_handlers_finished'], 'an event dispatched twice to the same bus is processed a second time (as a no-op) inline by its own awaiting handler, and that second processing appends its WAL line while the event\'s handler is still running')
fixed('F23', 'C15', ['C15.hang', 'C15.accepted_unprocessed_at_return'], '453ecd1', 'a handler that ends with a CancelledError of its own making (e.g. it awaited a cancelled task) is taken for cancellation of the run loop: the loop exits silently, its event never completes, queued events stay queued and a wait_until_idle() already in progress never returns')
fixed('F14', 'C02', ['C02.inversion'], '84bdfef', 'a run loop holds a dequeued event while blocked on the global lock; an awaiting handler drains a later event of that bus first')
F15 = 'on a parallel_handlers bus two sibling handlers that both await children process those subtrees concurrently'
known('F15', 'C06', ['C06.overlap'], F15)
known('F15', 'C02', ['C02.serial_overlap'], F15 + ' (also on a serial bus reached from both)', '')
known('F15', 'C05', ['C05.unrelated_in_window'], F15 + ', so unrelated handlers start inside an await window', '')
known('F15', 'C04', ['C04.child_incomplete_at_return', 'C04.descendant_incomplete'], F15 + '; one polling loop takes the child the other one is waiting for', '')

fixed('F3', 'C14', ['C14.rejected_is_child', 'C14.parent_never_completes', 'C14.hang'], '1f7b9b5', 'rejected dispatch inside a handler stayed recorded as its child; parent never completed')
fixed('F5a', 'C15', ['C15.hang'], '3c244ad', 'timeout during inline processing skipped task_done; wait_until_idle hung')
fixed('F5c', 'C10', ['C10.event_incomplete'], 'ff37599', 'awaited child cancelled by parent timeout was never signalled complete')
fixed('F6', 'C06', ['C06.overlap'], 'b7feea3', 'bus first used inside a handler processed events without the global lock')
fixed('F7', 'C16', ['C16.cancelled_runloop_not_done'], '0558ace', 'cancelling the run-loop task was swallowed; the task never ended')
fixed('F8', 'C09', ['C09.own_parent', 'C09.root_has_parent'], 'ca107f3', 'forwarded root event became its own parent')
fixed('F10', 'C16', ['C16.handler_after_stop'], '2d7c9ce', 'backlog of a stopped bus was processed inline by another bus\'s awaiting handler')
fixed('F19', 'C16', ['C16.task_survives_cancel', 'C16.cancelled_runloop_not_done'], '770e78d', 'cancel landing while execute_handler awaited its monitor task was swallowed; run loop survived asyncio.run() exit')
fixed('F13', 'C20', ['C20.runtime_error', 'C20.probe_error'], '8ad1a87', '@retry semaphore contended in one event loop raised RuntimeError (bound to a different event loop) in every later loop')
fixed('F22', 'C11', ['C11.accessor_raised', 'C11.accessor_raised_without_error', 'C11.accessor_wrong_exception'], '6eaa59a', 'result accessors crashed with RuntimeError(dictionary changed size during iteration) when a forwarded-to bus added results while they waited')
fixed('F24', 'C11', ['C11.not_same_exception', 'C11.C01_missing', 'C11.accessor_wrong_exception'], 'ec9e966', 'a TimeoutError raised by the handler itself was treated as the event timeout: exception object replaced, child results cancelled')
fixed('F2', 'C03', ['C03.hang', 'C03.descendant_incomplete'], '95060a3', 'recursion guard raised out of process_event: the event never completed and awaiting it hung', 'findings/F2.json')
fixed('F2b', 'C04', ['C04.raised', 'C04.hang'], '95060a3', 'recursion guard error escaped from an in-handler await', 'findings/F2_C04.json')
fixed('F2c', 'C15', ['C15.hang'], '95060a3', 'event refused by the recursion guard stayed pending in history: wait_until_idle never returned', 'findings/F2_C15.json')
fixed('F25', 'C15', ['C15.hang'], 'dda422b', 'the queue getter of a cancelled run loop stayed registered and swallowed the first event dispatched after the run loop had been restarted: the event was never processed and wait_until_idle never returned')
fixed('F28', 'C15', ['C15.late_return'], 'c5c063c', 'a handler times out while its polling loop is processing another bus\'s event inline: the interrupted processing completes that event, but the loop leaves by the exception without raising that bus\'s idle flag, and the bus\'s run loop is blocked behind the global lock - wait_until_idle() of the idle bus returned only when the lock holder finishes its next inline processing or its own event')
fixed('F26', 'C15', ['C15.late_return'], '3f849a1', 'a bus whose last unfinished events were finished inline on another bus was not told it was idle while its run loop was blocked behind the global lock: wait_until_idle returned only when the lock holder had finished')
fixed('F17', 'C15', ['C15.not_idle_at_return'], '67ce4a2', 'wait_until_idle returned with a forwarded event still queued')
fixed('F18', 'C09', ['C09.children_attribution'], 'f319433', 'child dispatched to two buses by one handler was listed twice in event_children')
with open('/verif/KNOWN_FINDINGS.jsonl', 'w') as f:
    for e in K:
        f.write(json.dumps(e) + '\n')
print(len(K), 'entries')
