"""prints the sub-agent prompt for one property id (dev tool)"""
import json, sys
pid = sys.argv[1]
p = next(json.loads(l) for l in open('/verif/properties.jsonl') if json.loads(l)['id'] == pid)
wt = f'/tmp/wt/{pid}'
print(f"""You are helping to evaluate a verification tool for the Python library `bubus` (browser-use/bubus: a Pydantic-based asyncio event bus). I need a realistic, subtle code change ("seeded defect") to the library that BREAKS one specific behavioural property while the code still imports fine and the library's existing test-suite still passes.

## The property the change must break

**{p['title']}**

{p['statement']}

Scope of the property: {p['quantifier']['text']}

## Where to work

A private scratch git worktree of the library is at `{wt}` (package in `{wt}/bubus/`, tests in `{wt}/tests/`). Work ONLY inside `{wt}`. Never touch `/repo` or `/verif` (do not read `/verif` either). No network is available.

IMPORTANT: the installed `bubus` in `/venv` is an editable install pointing at another checkout, so ALWAYS run python with `PYTHONPATH={wt}` so that your modified copy is imported, and verify it once with
`cd {wt} && PYTHONPATH={wt} /venv/bin/python -c "import bubus; print(bubus.__file__)"` (must print a path under `{wt}`).

Run the existing test-suite with:
`cd {wt} && PYTHONPATH={wt} timeout 1200 /venv/bin/python -m pytest -q -p no:cacheprovider --timeout=900 -n 4 -o addopts=""`
(138 tests; they all pass on the unmodified worktree; takes about 1-2 minutes). Note: a few wall-clock / lock-file tests in `tests/test_semaphores.py` can fail spuriously when the machine is loaded or when someone else runs the same suite at the same time (they share `/tmp/browser_use_semaphores`); if only those fail, re-run `tests/test_semaphores.py` on its own a couple of times, and check whether the same failure also happens without your change.

## What I need from you

1. Read the library code (`bubus/service.py`, `bubus/models.py`, `bubus/helpers.py`) to understand the mechanism that makes the property hold.
2. Make ONE small change to the library source (a few lines; something a developer could plausibly introduce in a refactor, optimisation or "fix") that makes the property false.
   - The change must NOT be exposed by ordinary, simple use: it should need something specific to manifest — a particular interleaving of tasks, a fault/timeout/cancellation at a particular point, a multi-step sequence of operations, an unusual input or configuration, or two cooperating sites that each look fine alone.
   - It must still compile/import and ALL 138 existing tests must still pass with the change (run them!).
   - Do not modify the tests, do not add hooks/env switches; do not break the property in a way that also breaks everything else.
3. Write a demonstration: a standalone script `{wt}/_seeded/demo.py` (plain asyncio, may use real short sleeps; run as `cd {wt} && PYTHONPATH={wt} /venv/bin/python _seeded/demo.py`) that exits with status 1 (and prints what went wrong) WITH your change and exits 0 WITHOUT it. Verify both. To run it on the unmodified code use `git diff -- bubus > _seeded/patch.diff; git checkout -- bubus; <run demo>; git apply _seeded/patch.diff` — do NOT use `git stash` (the stash is shared with other worktrees of this repository that other people are using right now).
4. Save the change as a patch: `cd {wt} && git diff -- bubus > _seeded/patch.diff` (the worktree must still contain the change when you finish).
5. Write `{wt}/_seeded/meta.json` with keys: "property" ("{pid}"), "summary" (one sentence: what was changed), "needs" (what specific circumstances are needed for the defect to manifest), "files" (list of changed files).

Report back briefly: the summary, what it needs to manifest, confirmation that the 138 tests pass with the change, and the demo's exit status with and without the change. If your first idea gets caught by the existing tests, try another idea — do not give up after one attempt.""")
