"""pin_all.py: for every `known` entry without a pinned reproducer, search the property's profiles for a violation
with one of its clauses and exactly that cause, shrink it and save findings/<id>_<prop>.json (dev tool)."""
import sys, json, os
sys.path.insert(0, '/verif')
from concurrent.futures import ProcessPoolExecutor
import multiprocessing
from sim import props, shrink, gen

def work(e):
    prop, cause, clauses = e['property'], e['cause'], set(e['clauses'])
    profs = [p for p, _ in (props.profiles_for(prop, 'quick') if prop in props.BUS_PROPS else props.profiles_for(prop))]
    extra = [p for p in ('deep', 'recursion', 'small_history', 'timeouts', 'errors', 'lineage', 'parallel', 'multi_fwd', 'backlog', 'flood_handler') if p not in profs and prop in props.BUS_PROPS]
    for seed in range(0, 1500):
        for prof in profs + extra:
            try:
                sc = props.make_scenario(prop, prof, seed)
                r = props.run_one(prop, sc)
            except Exception:
                continue
            hit = [v for v in r.get('viol', []) if v['clause'] in clauses and v.get('cause') == cause]
            if hit:
                cl = hit[0]['clause']
                def still(c):
                    rr = props.run_one(prop, c)
                    return any(v['clause'] == cl and v.get('cause') == cause for v in rr.get('viol', []))
                small, n = shrink.shrink(sc, still, 500)
                small['profile'] = f'pinned/{e["id"]}_{prop}'
                small.pop('seed', None)
                out = f'/verif/findings/{e["id"]}_{prop}.json'
                json.dump(small, open(out, 'w'))
                return (e['id'], prop, prof, seed, n)
    return (e['id'], prop, None, None, None)

if __name__ == '__main__':
    known = [json.loads(l) for l in open('/verif/KNOWN_FINDINGS.jsonl') if l.strip()]
    todo = [e for e in known if e['status'] == 'known' and not e.get('reproducer')]
    with ProcessPoolExecutor(12, mp_context=multiprocessing.get_context('fork')) as ex:
        for r in ex.map(work, todo):
            print(r, flush=True)
