#!/venv/bin/python
"""seeded.py import|verify|detect <name> ...   maintenance tool for /verif/seeded/<name>/ (see DESIGN.md 12.4)

import <prop> <name>        copy /tmp/wt/<prop>/_seeded/{patch.diff,demo.py,meta.json} to /verif/seeded/<name>/
verify <name>               in a scratch export of /repo HEAD: demo exits 0 without the patch, 1 with it; the 138 tests pass with it
confirm <name> <prop>       replay-based confirmation (fails with the patch, passes without) for seeds whose demo a later /repo repair invalidated
detect <name> <prop>...     run the quick checks of the given properties against the patched scratch copy; record outcome in meta.json
"""
import json, os, shutil, subprocess, sys, tempfile, time
ROOT = '/verif'

def sh(cmd, cwd=None, env=None, timeout=1800):
    p = subprocess.run(cmd, shell=True, cwd=cwd, env=env, capture_output=True, text=True, timeout=timeout)
    return p.returncode, p.stdout + p.stderr

def scratch(patch=None):
    d = tempfile.mkdtemp(prefix='sd.', dir='/tmp')
    rc, out = sh(f'git -C /repo archive HEAD | tar -x -C {d}')
    assert rc == 0, out
    if patch:
        rc, out = sh(f'patch -p1 -s < {patch}', cwd=d)
        if rc != 0:
            shutil.rmtree(d); raise SystemExit('PATCH FAILED: ' + out)
    return d

def main():
    cmd, name = sys.argv[1], sys.argv[2]
    sd = os.path.join(ROOT, 'seeded', name)
    if cmd == 'import':
        prop = name if len(sys.argv) < 4 else sys.argv[2]
        name = sys.argv[3] if len(sys.argv) > 3 else name
        sd = os.path.join(ROOT, 'seeded', name)
        src = f'/tmp/wt/{prop}/_seeded'
        os.makedirs(sd, exist_ok=True)
        for f in os.listdir(src):
            if os.path.isfile(os.path.join(src, f)) and os.path.getsize(os.path.join(src, f)) < 200_000:
                shutil.copy(os.path.join(src, f), os.path.join(sd, f))
        # always regenerate the patch from the worktree to be sure it matches
        rc, out = sh('git diff -- bubus', cwd=f'/tmp/wt/{prop}')
        open(os.path.join(sd, 'patch.diff'), 'w').write(out)
        print('imported', os.listdir(sd)); return
    meta_p = os.path.join(sd, 'meta.json')
    meta = json.load(open(meta_p)) if os.path.exists(meta_p) else {}
    env = dict(os.environ)
    if cmd == 'verify':
        res = {}
        d0 = scratch(); d1 = scratch(os.path.join(sd, 'patch.diff'))
        try:
            for tag, d in (('without', d0), ('with', d1)):
                os.makedirs(os.path.join(d, '_seeded'), exist_ok=True)
                for f in os.listdir(sd):
                    if f.endswith('.py'):
                        shutil.copy(os.path.join(sd, f), os.path.join(d, '_seeded', f))
                # demos use real sleeps and can be timing-sensitive on a loaded machine: up to 3 runs;
                # without the patch every run must exit 0, with the patch at least one run must exit 1
                rcs = []
                for _ in range(3):
                    rc, out = sh('timeout 300 /venv/bin/python _seeded/demo.py', cwd=d, env=dict(env, PYTHONPATH=d))
                    rcs.append(rc)
                    if tag == 'with' and rc == 1:
                        break
                    if tag == 'without' and rc != 0:
                        break
                res[f'demo_exits_{tag}_patch'] = rcs
                res[f'demo_exit_{tag}_patch'] = (1 if 1 in rcs else rcs[-1]) if tag == 'with' else (0 if all(x == 0 for x in rcs) else next(x for x in rcs if x != 0))
                res[f'demo_tail_{tag}_patch'] = out[-400:]
            rc, out = sh('timeout 1500 /venv/bin/python -m pytest -q -p no:cacheprovider --timeout=900 -n 8 --dist=loadscope -o addopts=""', cwd=d1, env=dict(env, PYTHONPATH=d1))
            res['tests_with_patch'] = out.strip().splitlines()[-1] if out.strip() else f'rc={rc}'
            res['tests_rc'] = rc
            if rc != 0:
                failed = sorted({l.split(' ')[1] for l in out.splitlines() if l.startswith('FAILED ')})
                res['tests_failed_first_run'] = failed
                # the suite has timing-sensitive tests: re-run only the failures, serially, twice
                if failed and len(failed) <= 5:
                    rc2, out2 = sh('timeout 900 /venv/bin/python -m pytest -q -p no:cacheprovider --timeout=900 -o addopts="" ' + ' '.join(failed), cwd=d1, env=dict(env, PYTHONPATH=d1))
                    rc3, out3 = sh('timeout 900 /venv/bin/python -m pytest -q -p no:cacheprovider --timeout=900 -o addopts="" ' + ' '.join(failed), cwd=d1, env=dict(env, PYTHONPATH=d1))
                    res['tests_failed_rerun_serial'] = [out2.strip().splitlines()[-1], out3.strip().splitlines()[-1]]
                    if rc2 == 0 and rc3 == 0:
                        res['tests_rc'] = 0
                        res['tests_note'] = 'first (parallel, loaded machine) run had timing failures that pass when re-run serially twice'
            rc, out = sh('/venv/bin/python -c "import bubus; print(bubus.__file__)"', cwd=d1, env=dict(env, PYTHONPATH=d1))
            res['imported_from_scratch'] = out.strip().startswith(d1)
        finally:
            shutil.rmtree(d0); shutil.rmtree(d1)
        ok = res['demo_exit_without_patch'] == 0 and res['demo_exit_with_patch'] == 1 and res['tests_rc'] == 0 and res['imported_from_scratch']
        meta['verified'] = {'ok': ok, **res, 'how': 'tools/seeded.py verify: scratch export of /repo HEAD (+patch), demo.py with PYTHONPATH=scratch, pytest -n 8 on the patched export'}
        json.dump(meta, open(meta_p, 'w'), indent=1)
        print(json.dumps(meta['verified'], indent=1)); return
    if cmd == 'detect':
        props_ = sys.argv[3:]
        d1 = scratch(os.path.join(sd, 'patch.diff'))
        det = meta.setdefault('detection', {})
        try:
            for prop in props_:
                t0 = time.time()
                rc, out = sh(f'timeout 1200 /venv/bin/python checks/check.py {prop} quick', cwd=ROOT,
                             env=dict(env, VERIF_REPO=d1, VERIF_NO_EVIDENCE='1', VERIF_QUICK_S=os.environ.get('VERIF_QUICK_S', '40')))
                lines = [l for l in out.splitlines() if l.startswith('VIOLATION') or l.startswith('  clause') or l.startswith('HARNESS') or l.startswith(prop + ':')]
                det[prop] = {'exit': rc, 'detected': rc == 1, 'wall_s': round(time.time() - t0, 1), 'lines': lines[:12],
                             'cmd': f'VERIF_REPO=<scratch export of /repo HEAD + patch.diff> /venv/bin/python checks/check.py {prop} quick'}
                print(prop, 'exit', rc); print('\n'.join(lines[:12]))
        finally:
            shutil.rmtree(d1)
        json.dump(meta, open(meta_p, 'w'), indent=1)
        return
    if cmd == 'confirm':
        # confirmation on the current tree by the simulator itself, for seeds whose demo.py was invalidated by a later
        # repair of /repo: the minimised replay of the detecting check must fail with the patch and pass without it
        prop = sys.argv[3]
        line = next((l for l in meta.get('detection', {}).get(prop, {}).get('lines', []) if l.startswith('VIOLATION')), None)
        assert line, 'no VIOLATION line recorded for ' + prop
        src = line.split('replay=', 1)[1].strip()
        dst = os.path.join(sd, 'replay.json')
        if os.path.exists(src):
            shutil.copy(src, dst)
        d0 = scratch(); d1 = scratch(os.path.join(sd, 'patch.diff'))
        try:
            rc1, out1 = sh(f'/venv/bin/python sim/replay.py {dst}', cwd=ROOT, env=dict(env, VERIF_REPO=d1))
            rc0, out0 = sh(f'/venv/bin/python sim/replay.py {dst}', cwd=ROOT, env=dict(env, VERIF_REPO=d0))
        finally:
            shutil.rmtree(d0); shutil.rmtree(d1)
        meta['confirmed_by_replay'] = {'ok': rc1 == 1 and rc0 == 0, 'replay': f'seeded/{name}/replay.json', 'exit_with_patch': rc1, 'exit_without_patch': rc0,
                                       'tail_with_patch': out1[-300:], 'tail_without_patch': out0[-200:],
                                       'how': 'sim/replay.py on the minimised scenario of the detecting check, VERIF_REPO = scratch export of /repo HEAD with / without patch.diff'}
        json.dump(meta, open(meta_p, 'w'), indent=1)
        print(json.dumps(meta['confirmed_by_replay'], indent=1)); return
    raise SystemExit(__doc__)

if __name__ == '__main__':
    main()
