"""Regenerates MANIFEST.json (run by hand)."""
import json
TEXT = {
 'C01': ('exploration', 'Seeded search over handler programs, dispatch histories and schedules (virtual-time loop running the real bubus code); every accepted (bus,event) x matching handler must have exactly one activation, no activation for non-accepted / non-matching pairs, one result entry per delivered handler; hangs are decided in virtual time.', '7 C01'),
 'C02': ('exploration', 'Seeded multi-bus schedule search; pairwise enqueue-order vs processing-begin order per bus with the awaited-descendant exemption, and no second event started on a serial bus while an un-suspended handler of another event runs.', '7 C02'),
 'C03': ('exploration', 'Seeded search over event trees and schedules; state of the ground-truth descendant tree (from the harness\'s own lineage records) at the exact sequence number at which an external await returns, plus liveness in virtual time (release within 5 s of quiescence; hang/livelock verdicts).', '7 C03'),
 'C04': ('exploration', 'Schedule search around dispatch->await gaps inside handlers (yield counts, pauses, target bus, bus iteration order); child and its descendants must be complete when the in-handler await returns, and the await must return.', '7 C04'),
 'C05': ('exploration', 'Schedule search with non-empty queues at the await; no unrelated handler may start inside an await window. Main clause is a known finding (F0); clean profiles and concurrency variants stay enforced.', '7 C05'),
 'C06': ('exploration', 'Configuration + schedule search (first use of a bus from main code or from inside handlers, serial and parallel buses); interval-overlap check at every handler entry.', '7 C06'),
 'C07': ('exploration', 'Forwarding-topology generation (chains, diamonds, cycles, self-loops, typed forwards) x schedules; reachable-set / path / identity / termination against a graph-reachability model.', '7 C07'),
 'C08': ('exploration', 'Schedule search with an online observer: the public snapshot (status, signal, every result) taken when an event is first seen complete is compared after every later callback of the run.', '7 C08'),
 'C09': ('exploration', 'Program + schedule search; parent ids and per-result children compared with the harness\'s own dispatch records; event.event_bus read inside handlers.', '7 C09'),
 'C10': ('fault_enumeration', 'Handler timeouts placed relative to handler progress: random placement plus an enumeration profile that sets an event timeout to every distinct handler-relative instant of a base run -1us / exactly / +1us (96 consecutive seeds per base program); cancellation at the deadline, TimeoutError result, containment, completion of everything touched, bus idles.', '7 C10'),
 'C11': ('exploration', 'Raise-position generation (sync/async, raise vs returned exception, before/after suspension, parents/children/forwarded buses) x schedules; same exception object recorded, everything else delivered exactly once, await never raises, accessors raise iff raise_if_any.', '7 C11'),
 'C13': ('exploration', 'History search with small max_history_size; length bound after every dispatch / processing step and eviction victims compared with a history model.', '7 C13'),
 'C14': ('exploration', 'Flood histories from callers and from inside handlers crossing the 50-queued / 100-in-flight limits; accept-or-raise, rejected leaves no trace, parents complete, accepted delivered once.', '7 C14'),
 'C15': ('exploration', 'wait_until_idle raced against external/nested/forwarded dispatches and the 0.1 s polls, after fault histories; bus state at the return instant, and return within 0.5 virtual seconds (plus injected stall / CPU-burn time) of idleness - no late return is excused since the F28 repair (c5c063c).', '7 C15'),
 'C16': ('fault_enumeration', 'stop() / run-loop cancel / cancel-all (what asyncio.run() does at exit) injected immediately before callback step k of base runs: random k plus an enumeration profile that walks k = 1..256 over one base run (256 consecutive seeds); bounded return, no handler start afterwards, cancelled tasks terminate.', '7 C16'),
 'C17': ('fault_enumeration', 'WAL on a simulated in-memory file system with latency: every write call vs the WAL model (one faithful line per processing, in order, after the handlers) fault-free; mkdir/open/write/short-write/close faults at random op indexes plus an enumeration profile placing a fault at every I/O op index 0..63 of a base run: processing unaffected, one error report per failed attempt, every complete line intact and round-tripping.', '7 C17'),
 'C18': ('exploration', 'Event streams x filters x timeouts x concurrent expects x cancellation steps; returned event admissible w.r.t. the processing record, exact timeout, handler registry restored.', '7 C18'),
 'C19': ('fault_enumeration', 'Outcome scripts x parameters x caller cancellation: random instants plus an enumeration profile cancelling at every distinct instant of the model run (-1us / exactly / +1us / mid-interval); equality with an executable retry model (attempt count, exact attempt start times in virtual time, outcome and exception identity).', '7 C19'),
 'C20': ('exploration', 'Caller schedules, outcome mixes, cancellations and successive event loops against an occupancy model; capacity probe after quiescence.', '7 C20'),
}
import sys
claimed = sys.argv[1:] or sorted(TEXT)
checks = []
for pid in claimed:
    cat, text, ref = TEXT[pid]
    checks.append({
        'property_id': pid,
        'quick_cmd': f'timeout 900 /venv/bin/python checks/check.py {pid} quick',
        'thorough_cmd': f'timeout 3600 /venv/bin/python checks/check.py {pid} thorough',
        'evidence_file': f'/verif/evidence/{pid}.json',
        'replay_cmd_template': '/venv/bin/python sim/replay.py {path}',
        'engine': 'bubus-dst',
        'level_claimed': {'category': cat, 'text': text, 'design_ref': 'DESIGN.md section ' + ref},
        'level_note': 'Sampling, not proof. Trusted base: the simulator (sim/loop.py, seams.py), the scenario interpreter and oracles in sim/, CPython asyncio semantics (ready-queue FIFO, timer order). Real code under test: bubus.* from /repo working tree. Known findings (KNOWN_FINDINGS.jsonl) are matched per (property, clause, diagnosed mechanism).',
        'technique': 'deterministic simulation with fault injection: seeded search over schedules/faults on a virtual-time asyncio loop, oracle over the recorded history',
    })
NA = {
 'C12': 'Pure function of (declared result type, returned value, accessor flags); quantifier is inputs only - no schedule, clock, fault or interleaving for a simulator to own (DESIGN.md section 8).',
}
for pid in TEXT:
    if pid not in claimed:
        NA[pid] = 'check not built yet in this revision (planned, see DESIGN.md section 7)'
m = {
 'version': 1,
 'setup_cmd': 'timeout 600 /venv/bin/python checks/setup.py',
 'hooks': {'guard': 'BUBUS_VERIF', 'enable': 'none needed: all seams are module/class attributes or an EventBus subclass set up by sim/seams.py; /repo is imported from its working tree (VERIF_REPO, default /repo)',
           'baseline_off_cmd': 'cd /repo && /venv/bin/python -m pytest -ra -q -p no:cacheprovider --timeout=900 --continue-on-collection-errors', 'source_commits': [], 'add_only': True},
 'engines': [{'name': 'bubus-dst', 'path': '/verif/sim', 'serves_properties': claimed, 'kind_free_text': 'deterministic simulation: virtual-time asyncio.BaseEventLoop subclass + seeded scenario generators + fault injection + history oracles + ddmin shrinker + replay'}],
 'checks': checks,
 'not_applicable': [{'property_id': k, 'reason': v} for k, v in sorted(NA.items())],
 'notes': 'VERIF_SEED selects the seed block, VERIF_TIER the tier, VERIF_REPO the tree under test, VERIF_QUICK_S / VERIF_THOROUGH_S the exploration budgets. Exit 2 = harness error (never reported as success or as a violation).',
}
json.dump(m, open('/verif/MANIFEST.json', 'w'), indent=1)
print('claimed', claimed)
