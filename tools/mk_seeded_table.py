"""Regenerates the table of section 12.4 of DESIGN.md from seeded/*/meta.json (run by hand)."""
import json, os
NOTES = {
 'C01-a': 'missed at first: no scenario registered handlers while traffic was flowing -> late registration (`register` op, `late_reg` profile); C01.missing judged for handlers registered before the event was accepted',
 'C04-a': 'missed at first: programs only awaited the event they had just dispatched -> `await` of any earlier event (`await_any*` profiles)',
 'C06-a': 'missed at first: no stop()/cancel in C06 profiles -> `multi_stop` (>=3 buses, stop or run-loop cancel injected before a random step)',
 'C07-a': 'missed at first: forwarding graphs had no multi-edges, C07 profiles no re-dispatch -> multigraph forwards, `topo_redispatch`',
 'C05-a': 'missed at first (same mechanism as C06-a) -> `multi_stop` added to the C05 profiles',
 'C08-a': 'missed by C08 at first (caught by C10): C08 profiles had no timeouts -> `timeouts*` profiles added to C08',
 'C11-a': 'missed at first: (1) op kinds were drawn by cumulative probability so `raise` was starved in most profiles (generator bug, fixed: relative weights), (2) no raising handlers on parallel buses -> `errors_parallel`, (3) C11 had no hang clause',
 'C15-a': 'missed at first: no run loop ever died while events were queued -> `raise_cancelled` op / `idle_dead_loop` profile (which also exposed finding F23); F23 diagnosis made timing-exact',
 'C02-b': 'missed at first: the inversion was attributed to known finding F14 -> F14 now requires that the later event was drained inline by an awaiting handler',
 'C05-b': 'missed at first: the extra unrelated handler was attributed to known finding F0 -> F0 now carries a model of the drain policy (one event per bus per pass)',
 'C07-b': 'missed at first: no clause on *when* a forward is suppressed and no small histories in forwarding topologies -> clause `forwarded_to_bus_in_path`, profile `topo_small_history`',
 'C14-b': 'missed at first: the "no running loop" rejection was never exercised -> `dispatch_noloop` op (dispatch with the handler context but the running loop hidden, as a worker thread sees it)',
 'C17-b': 'missed at first: injected I/O faults were all OSErrors and every payload was serialisable -> non-OSError open/write faults, payloads the JSON serialiser refuses (bytes, unknown objects)',
 'C06-c': 'missed at first (same patch as C11-a): C06 profiles had no raising handlers on parallel buses -> `errors_parallel` added to C06',
 'C05-c': 'missed at first: (1) the C05 window ended when the await returned, although the statement runs it to the child\'s completion -> window extended (with the C04 cause of the early return as cause), (2) the early return was attributed to known finding F1 -> F1 now requires that the run loop got its chance before the await began or while the awaiter was processing another event inline',
 'C11-c': 'missed at first: handlers only raised application exceptions -> exceptions the library itself uses for control flow (QueueShutDown, QueueFull, "Event loop is closed", TimeoutError) are raised by handlers too; the unchanged tree then showed genuine defect F24 (fixed)',
 'C08-c': 'missed at first: handlers returned scalars only and accessors were not part of the frozen-after-completion snapshot -> container return values (`ret`), `results` op with event_results_flat_list/by_handler_id after completion, snapshot compares result *contents*',
 'C14-c': 'missed at first: no handler was ever cancelled between a suspension point inside the inline polling loop -> `timeouts_burn` (handler overruns its deadline with CPU burn while a backlog is queued, so the cancellation lands at the very next suspension point)',
 'C16-c': 'missed at first: stop() was only injected while the victim bus was idle or alone -> rich stop scenarios (`stop_enum` variant with >=2 buses, backlog on the victim, an inline awaiter on another bus, stop at every step k)',
 'C18-c': 'missed at first: generated timeouts were all positive -> timeout 0 / 0.0 included in `expect` and `expect_enum`',
 'C20-c': 'missed at first: (1) run_in_executor/to_thread had no simulated counterpart (real threads forbidden) -> thread hop modelled as a deferred call after 1 ms, (2) simulated time.time() started at 0 so the "every 5 s" overload check never ran -> epoch-like base, (3) no cancellation right after arrival -> `cancel_at` = arrival + epsilon',
 'C15-d': 'fourth round (after the second repair round). Missed at first: the liveness clause allowed 5 virtual seconds between "bus idle" and the return -> 0.5 s plus the injected stall / CPU-burn time; "idle" now also accounts for events of the bus\'s history that another bus is still processing; profile `idle_gap` (dispatch, pause, await, long pause on two buses with callers waiting for idleness) makes the takeover-then-keep-running pattern frequent',
 'C15-a': 'detected before the second repair round through a run loop killed by a handler\'s CancelledError (F23); with F23 repaired nothing killed a run loop any more and the seed was missed -> `cancel_runloop` fault (the bus task cancelled from outside while the program goes on) in `idle_dead_loop`; that fault kind then exposed the orphaned queue getter in the unchanged tree (F25, fixed). demo.py relies on F23: confirmed by replay instead',
 'C08-b': 'detected before the second repair round through a forwarded child (F4 mechanism); with F4 repaired it was missed -> `spawn_dispatch` op / `late_child` profile (a background task started by a handler dispatches a child after the handler\'s event has completed). demo.py encodes the F4 behaviour (deadlocks on the repaired tree): confirmed by replay instead',
 'C05-b': 'demo.py invalidated by the F1/F14 repair (its scenario now shows known finding F0 without the patch too): confirmed by replay instead',
 'C06-b': 'demo.py relies on F23 to end a run loop: confirmed by replay instead (the check reaches the restart through an injected run-loop cancellation)',
 'C10-c': 'demo.py cannot see the defect since the F5b repair completes the interrupted children: confirmed by replay instead (`not_cancelled_at_deadline`)',
 'C03-e': 'fifth round (after the repairs; C03, C05, C08, C10 had lost seeds to retirement). Missed at first: C03 had no raising handlers on parallel buses -> `errors_parallel` and `parallel` added to the C03 profiles (silent on the unchanged tree over seed blocks 0-8)',
 'C06-d': 'late round. Missed at first: every generated handler died at once when cancelled -> handlers that need time to unwind (`cleanup` attribute: an awaited sleep in the cancellation path, cut short by a second cancellation) and profile `timeouts_cleanup`; the first version of that harness code forgot the exit record when the unwinding itself was cancelled and produced a false overlap on the unchanged tree (corrected before the profile was registered)',
 'C07-d': 'late round. Missed at first: forwarding topologies had no handler timeouts -> profile `topo_timeouts` (slow, child-less handlers with short timeouts next to forwards)',
 'C11-d': 'late round. Missed at first: generated exceptions were never chained -> kind `Chained` (`raise X from Y` inside an `except` block) in the error profiles. (On the unchanged tree such an exception makes the library\'s traceback filter recurse until RecursionError, which is swallowed after the error has been recorded - no property of this list is affected.)',
 'C10-f': 'sixth round (continuation session, after the F28 repair moved the idle notification into the `finally` of the inline processing). Caught as built, first by the pinned F5b reproducer (a `fixed` entry replayed as a regression test), then by exploration',
 'C15-f': 'sixth round (continuation session). Caught as built: `idle_dead_loop` cancels a run loop inside a handler and a later `wait_idle` hangs',
 'C04-c': 'missed at first: C04 profiles had no handler timeouts -> `timeouts` added to C04 (and F5b recognised there)',
}
out = ['| seeded id | property | change (by an independent sub-agent) | needs | caught by (quick check: clauses) | note |', '|---|---|---|---|---|---|']
n = miss = retired = 0
FIRST_MISSED = set(NOTES) - {'C05-b', 'C06-b', 'C10-c'}
for d in sorted(os.listdir('/verif/seeded')):
    m = json.load(open(f'/verif/seeded/{d}/meta.json'))
    caught = []
    for p, v in m.get('detection', {}).items():
        cl = sorted({l.split('clause=')[1].split(' ')[0].split('.', 1)[1] for l in v['lines'] if 'clause=' in l})
        if v['exit'] == 1:
            caught.append(f"{p}: {', '.join(cl)}")
    summ = (m.get('summary') or '').replace('\n', ' ').replace('|', '/')
    needs = m.get('needs') or ''
    if isinstance(needs, list):
        needs = '; '.join(map(str, needs))
    needs = str(needs).replace('\n', ' ').replace('|', '/')
    if m.get('retired'):
        out.append(f"| {d} | {m.get('property')} | {summ[:220]} | {needs[:180]} | retired | {m['retired']} |")
        retired += 1
        continue
    how = '; '.join(caught) or 'NOT DETECTED'
    if not m.get('verified', {}).get('ok'):
        cr = m.get('confirmed_by_replay', {})
        how += ' (demo.py obsolete; replay fails with / passes without the patch)' if cr.get('ok') else ' (UNCONFIRMED)'
    out.append(f"| {d} | {m.get('property')} | {summ[:220]} | {needs[:180]} | {how} | {NOTES.get(d, 'caught as built')} |")
    n += 1
    miss += d in FIRST_MISSED
tbl = '\n'.join(out)
p = '/verif/DESIGN.md'
s = open(p).read()
i = s.index('| seeded id | property | change (by an independent sub-agent)')
j = s.index('### 12.5 Silence on the unchanged tree')  # (an earlier version cut at 'Lessons kept…' and wiped 12.5)
s = s[:i] + tbl + '\n\n' + s[j:]
import re
s = re.sub(r'All \d+ \(.*?\nlast column', f'All {n} live ones (up to four rounds per property; later rounds were told only which mechanisms the earlier ones had used; {retired} more were\nretired when a repair of /repo made them harmless, see their rows) are\ndetected by the quick check of their own property; {miss} were missed when first tried and led to the strengthening noted in the\nlast column', s, count=1, flags=re.S)
open(p, 'w').write(s)
print(n, 'live seeded,', retired, 'retired,', miss, 'first missed')
