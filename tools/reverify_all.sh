#!/bin/bash
# re-verify (demo without/with, test suite with) and re-detect every seeded defect against the current /repo HEAD
cd /verif
for d in seeded/*/; do
  n=$(basename $d); p=${n%%-*}
  /venv/bin/python tools/seeded.py verify $n > /tmp/rv_$n.log 2>&1
  ok=$(/venv/bin/python -c "import json;print(json.load(open('seeded/$n/meta.json'))['verified']['ok'])")
  VERIF_QUICK_S=40 timeout 1500 /venv/bin/python tools/seeded.py detect $n $p > /tmp/rd_$n.log 2>&1
  echo "$n verified=$ok $(head -1 /tmp/rd_$n.log)"
done
