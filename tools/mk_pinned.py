"""Writes the hand-minimised pinned reproducers of known findings (development tool)."""
import json
def base(**k):
    d = {"v": 1, "bus_order": {"perm": [0, 1]}, "max_depth": 2, "event_timeout": 300.0, "faults": {}}
    d.update(k); return d
A = lambda bus, pat, prog, **k: dict({"bus": bus, "pattern": pat, "kind": "async", "prog": prog}, **k)
P = {}
P['F0'] = base(profile="pinned/F0", buses=[{"name": "b0"}],
    handlers=[A("b0", "E0", [["dispatch_await", "b0", "E1", {}, "x"]]), A("b0", "E1", []), A("b0", "E2", [])],
    callers=[{"prog": [["dispatch", "b0", "E0", {}, "p"], ["dispatch", "b0", "E2", {}, "u"], ["await", "p"]]}])
P['_F1_hand'] = base(profile="pinned/F1", buses=[{"name": "b0"}, {"name": "b1"}],
    handlers=[A("b0", "E0", [["dispatch", "b1", "E1", {}, "x"], ["yield", 1], ["await", "x"]]), A("b1", "E1", [])],
    callers=[{"prog": [["dispatch_await", "b0", "E0", {}, "p"]]}])
P['F2'] = base(profile="pinned/F2", buses=[{"name": "b0"}], max_depth=3,
    handlers=[A("b0", "*", [["dispatch", "b0", "E0", {}, "x"]])],
    callers=[{"prog": [["dispatch_await", "b0", "E0", {}, "p"]]}])
P['F4_c08'] = base(profile="pinned/F4_c08", buses=[{"name": "b0"}, {"name": "b1"}],
    handlers=[{"bus": "b0", "kind": "forward", "to": "b1", "pattern": "*"}, A("b1", "E0", [["pause", 0.01]])],
    callers=[{"prog": [["dispatch_await", "b0", "E0", {}, "p"]]}])
P['F5b'] = base(profile="pinned/F5b", buses=[{"name": "b0"}],
    handlers=[A("b0", "E0", [["dispatch_await", "b0", "E1", {}, "x"]]), A("b0", "E1", []), A("b0", "E2", [["pause", 1.0]])],
    callers=[{"prog": [["dispatch", "b0", "E0", {"timeout": 0.1}, "p"], ["dispatch", "b0", "E2", {}, "u"], ["await", "u"]]}])
P['F9'] = base(profile="pinned/F9", buses=[{"name": "b0"}, {"name": "b1"}],
    handlers=[{"bus": "b0", "kind": "forward", "to": "b1", "pattern": "E0"}, A("b0", "*", [["read_event_bus"]])],
    callers=[{"prog": [["dispatch_await", "b0", "E0", {}, "p"]]}])
P['F11'] = base(profile="pinned/F11", buses=[{"name": "b0", "max_history": 2}],
    handlers=[A("b0", "E0", [["dispatch", "b0", "E1", {}, "x"], ["dispatch", "b0", "E1", {}, "y"], ["dispatch", "b0", "E1", {}, "z"]]), A("b0", "E1", [])],
    callers=[{"prog": [["dispatch_await", "b0", "E0", {}, "p"]]}])
P['_F14_hand'] = base(profile="pinned/F14", buses=[{"name": "b0"}, {"name": "b1"}],
    handlers=[A("b0", "E0", [["dispatch", "b1", "E2", {}, "u1"], ["yield", 1], ["dispatch", "b1", "E2", {}, "u2"], ["dispatch_await", "b1", "E1", {}, "c"]]),
              A("b1", "E1", []), A("b1", "E2", [])],
    callers=[{"prog": [["dispatch_await", "b0", "E0", {}, "p"]]}])
P['F15'] = base(profile="pinned/F15", buses=[{"name": "b0", "parallel": True}],
    handlers=[A("b0", "E0", [["dispatch_await", "b0", "E1", {}, "x"]]), A("b0", "E0", [["dispatch_await", "b0", "E2", {}, "y"]]),
              A("b0", "E1", [["pause", 0.05]]), A("b0", "E2", [["pause", 0.05]])],
    callers=[{"prog": [["dispatch_await", "b0", "E0", {}, "p"]]}])
for k, v in P.items():
    if k.startswith('_'): continue
    json.dump(v, open(f'/verif/findings/{k}.json', 'w'))
print(sorted(P))
