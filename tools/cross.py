"""cross.py [nseeds]: every bus property's oracle against every bus profile; prints classes not covered by KNOWN_FINDINGS (dev tool)."""
import sys, json, collections, os
sys.path.insert(0, '/verif')
os.environ.setdefault('PYTHONHASHSEED', '0')
from concurrent.futures import ProcessPoolExecutor
import multiprocessing
from sim import props, gen
known = [json.loads(l) for l in open('/verif/KNOWN_FINDINGS.jsonl') if l.strip()]
kidx = {}
for e in known:
    if e['status'] == 'known':
        for cl in e['clauses']:
            kidx[(e['property'], cl, e['cause'])] = e
def is_known(v):
    c = v.get('cause', 'unexplained')
    if c == 'unexplained': return False
    return all((v['prop'], v['clause'], part) in kidx for part in c.split('+'))
def work(args):
    prop, prof, n = args
    out = collections.Counter(); ex = {}
    for s in range(n):
        sc = props.make_scenario(prop, prof, s)
        try:
            r = props.run_one(prop, sc)
        except Exception as e:
            out['EXC:' + repr(e)[:80]] += 1; ex.setdefault('EXC:' + repr(e)[:80], s); continue
        if 'harness' in r:
            out['HARNESS'] += 1; ex.setdefault('HARNESS', s); continue
        for k in set((v['clause'], v.get('cause')) for v in r.get('viol', []) if not is_known(v)):
            out[k] += 1; ex.setdefault(k, s)
    return prop, prof, dict(out), ex
if __name__ == '__main__':
    n = int(sys.argv[1]) if len(sys.argv) > 1 else 100
    only = sys.argv[2].split(',') if len(sys.argv) > 2 else sorted(props.BUS_PROPS)
    profs = [p for p in gen.PROFILES]
    jobs = [(prop, prof, n) for prop in only for prof in profs]
    with ProcessPoolExecutor(16, mp_context=multiprocessing.get_context('fork')) as ex:
        for prop, prof, out, exs in ex.map(work, jobs):
            if out:
                print(prop, prof, {str(k): (v, exs[k]) for k, v in out.items()})
