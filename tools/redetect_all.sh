#!/bin/bash
# re-run detection of every seeded defect against its own property's quick check (dev tool)
cd /verif
for d in seeded/*/; do
  id=$(basename $d); prop=${id%%-*}
  out=$(VERIF_QUICK_S=${VERIF_QUICK_S:-40} /venv/bin/python tools/seeded.py detect $id $prop 2>&1 | grep -E "exit" | head -1)
  echo "$id $out"
done
