"""fifth-round prompt: base prompt + list of mechanisms already used (from earlier seeded metas)"""
import json, sys, os, subprocess
pid = sys.argv[1]
wt = f'/tmp/wt/{pid}e'
base = subprocess.run(['/venv/bin/python', '/verif/tools/agent_prompt.py', pid], capture_output=True, text=True).stdout.replace(f'/tmp/wt/{pid}', wt)
taken = []
for d in sorted(os.listdir('/verif/seeded')):
    if d.startswith(pid + '-'):
        m = json.load(open(f'/verif/seeded/{d}/meta.json'))
        taken.append('- ' + (m.get('summary') or '').replace('\n', ' ')[:400])
extra = f"""

## Ideas that are already taken (do NOT reuse them or close variants)

{chr(10).join(taken)}

Find a genuinely different mechanism. Prefer defects that only show under a specific interleaving of tasks, a fault / timeout / cancellation landing at a specific point, an unusual but legal configuration, or a multi-step history. The unmodified library may already deviate from the stated property in some situations; your demonstration must exit 0 on the unmodified code and 1 with your change, so pick a situation where the unmodified library does honour the property. Do not use `git stash`.
"""
print(base + extra)
