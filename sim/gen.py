"""Scenario generators (swarm profiles).  Every random choice is made here, from one
random.Random, and written into the scenario as an explicit value."""
from __future__ import annotations

import random

DURS = [0.0, 0.000001, 0.001, 0.01, 0.05, 0.0999, 0.1, 0.1001, 0.15]
LONG = [0.5, 1.0, 2.0, 5.0]

DEFAULT = dict(
    nb=[1, 1, 2, 2, 3], parallel_p=0.0, max_history=[50], ntypes=[2, 3, 4],
    fwd='none',  # none | some | topo
    handlers_per_bus=[1, 2, 2, 3], p_sync=0.2, p_method=0.15, p_wild=0.3, p_byname=0.2,
    prog_len=[0, 1, 1, 2, 3], p_pause=0.25, p_yield=0.1, p_dispatch=0.25, p_dawait=0.3, p_gap=0.0,
    p_raise=0.0, p_return_exc=0.0, p_redispatch=0.0, p_readbus=0.0, p_burn=0.0,
    max_depth=[1, 2, 2], ncallers=[1, 1, 2, 3], caller_len=[1, 2, 3], p_caller_await=0.7, p_caller_pause=0.3,
    event_timeout=300.0, short_timeouts=None, p_stall=0.08, shuffle_order=True, rotate_p=0.0,
    own_bus_only=False, long_p=0.0, caller_idle_p=0.0, explicit_parent_p=0.0, redispatch_caller_p=0.0,
    results_p=0.0, p_await_any=0.0, p_stop_fault=0.0, p_cancel_runloop=0.0, p_spawn=0.0, p_cleanup=0.0, p_late=0.0, p_raise_cancelled=0.0,
    exc_kinds=['ValueError', 'KeyError', 'Boom', 'RuntimeError'], p_ret_container=0.0,
)


def dur(r: random.Random, long_p=0.0):
    base = r.choice(LONG) if r.random() < long_p else r.choice(DURS)
    if base and r.random() < 0.5:
        base += r.randrange(-3, 4) * 1e-6
    return max(0.0, round(base, 9))


def topo(r: random.Random, buses, kind=None):
    """forward edges [(src, dst)] for a named topology."""
    n = len(buses)
    kind = kind or r.choice(['chain', 'diamond', 'cycle', 'self', 'random', 'star', 'bidir'])
    E = []
    if n == 1:
        return [(buses[0], buses[0])] if kind in ('self', 'cycle') else []
    if kind == 'chain':
        E = [(buses[i], buses[i + 1]) for i in range(n - 1)]
    elif kind == 'cycle':
        E = [(buses[i], buses[(i + 1) % n]) for i in range(n)]
    elif kind == 'diamond' and n >= 4:
        E = [(buses[0], buses[1]), (buses[0], buses[2]), (buses[1], buses[3]), (buses[2], buses[3])]
    elif kind == 'star':
        E = [(buses[0], b) for b in buses[1:]]
    elif kind == 'bidir':
        E = [(buses[0], buses[1]), (buses[1], buses[0])]
    elif kind == 'self':
        E = [(buses[0], buses[0])] + [(buses[i], buses[i + 1]) for i in range(n - 1)]
    else:
        for a in buses:
            for b in buses:
                if r.random() < 0.35:
                    E.append((a, b))
    # multigraph: the same forward registered twice on a bus (other forwards may sit between the two)
    if E and r.random() < 0.3:
        for _ in range(r.choice([1, 1, 2])):
            E.insert(r.randrange(len(E) + 1), r.choice(E))
    return E


def gen_bus(seed: int, knobs: dict, profile: str) -> dict:
    K = dict(DEFAULT)
    K.update(knobs)
    r = random.Random(seed)
    nb = r.choice(K['nb'])
    buses = [f'b{i}' for i in range(nb)]
    types = [f'E{i}' for i in range(r.choice(K['ntypes']))]
    sc = {
        'v': 1, 'profile': profile, 'seed': seed,
        'buses': [{'name': b, 'parallel': r.random() < K['parallel_p'], 'max_history': r.choice(K['max_history'])} for b in buses],
        'handlers': [], 'callers': [], 'max_depth': r.choice(K['max_depth']), 'event_timeout': K['event_timeout'],
        'faults': {},
    }
    perm = list(range(nb))
    if K['shuffle_order']:
        r.shuffle(perm)
    sc['bus_order'] = {'perm': perm, 'rotate_every': r.choice([3, 7, 20]) if r.random() < K['rotate_p'] else 0}

    def evopts():
        o = {}
        if K['short_timeouts'] and r.random() < K['short_timeouts'][0]:
            o['timeout'] = r.choice(K['short_timeouts'][1])
        return o

    def target(own):
        if K['own_bus_only'] and own:
            return own
        return r.choice(buses)

    OPS = ['p_pause', 'p_yield', 'p_dispatch', 'p_dawait', 'p_gap', 'p_await_any', 'p_redispatch', 'p_readbus', 'p_burn',
           'p_raise', 'p_raise_cancelled', 'p_return_exc', 'p_spawn']
    weights = [max(0.0, K[k]) for k in OPS]
    total_w = sum(weights) or 1.0

    def pick():
        x = r.random() * total_w
        acc = 0.0
        for k, wgt in zip(OPS, weights):
            acc += wgt
            if x < acc:
                return k
        return OPS[0]

    def prog(is_handler, sync, own=None):
        """op kinds are drawn with the profile's knobs as relative weights (they need not sum to 1)"""
        p = []
        nvar = 0
        for _ in range(r.choice(K['prog_len'])):
            k = pick()
            if k == 'p_pause':
                if not sync:
                    p.append(['pause', dur(r, K['long_p'])])
            elif k == 'p_yield':
                if not sync:
                    p.append(['yield', r.choice([1, 1, 2, 3])])
            elif k == 'p_dispatch':
                nvar += 1
                p.append(['dispatch', target(own), r.choice(types), evopts(), f'v{nvar}'])
            elif k == 'p_dawait':
                if sync:
                    continue
                nvar += 1
                p.append(['dispatch_await', target(own), r.choice(types), evopts(), f'v{nvar}'])
            elif k == 'p_gap':
                if sync:
                    continue
                nvar += 1
                p.append(['dispatch', target(own), r.choice(types), evopts(), f'v{nvar}'])
                p.append(r.choice([['yield', 1], ['yield', 2], ['pause', dur(r)], ['pause', 0.0]]))
                p.append(['await', f'v{nvar}'])
            elif k == 'p_await_any':
                # await an event dispatched earlier by this program (not necessarily the latest one)
                if not sync and nvar:
                    p.append(['await', f'v{r.randrange(1, nvar + 1)}'])
            elif k == 'p_redispatch':
                if nvar:
                    p.append(['redispatch', target(own), f'v{r.randrange(1, nvar + 1)}'])
                elif is_handler:
                    p.append(['redispatch_self', own if own else r.choice(buses)])
            elif k == 'p_readbus':
                if is_handler:
                    p.append(['read_event_bus'])
            elif k == 'p_burn':
                p.append(['burn', r.choice([0.001, 0.05, 0.2])])
            elif k == 'p_raise':
                if is_handler:
                    p.append(['raise', r.choice(K['exc_kinds'])])
                    break
            elif k == 'p_raise_cancelled':
                # a handler that ends with CancelledError although nobody timed it out (it awaited a cancelled task)
                if is_handler and not sync:
                    p.append(['raise_cancelled'])
                    break
            elif k == 'p_spawn':
                # fire-and-forget asyncio task started by the handler (it inherits the handler's context): dispatches
                # one more event later, typically after the handler's own event has completed
                if is_handler and not sync:
                    p.append(['spawn_dispatch', r.choice([0.0, 0.01, 0.05, 0.2, 0.5]), target(own), r.choice(types)])
            elif k == 'p_return_exc':
                if is_handler:
                    p.append(['return_exc', r.choice(['ValueError', 'Boom'])])
                    break
        return p

    # forwarding edges
    edges = []
    if K['fwd'] == 'some' and nb > 1:
        for _ in range(r.choice([0, 1, 1, 2, 3])):
            a, b = r.sample(buses, 2)
            if (a, b) not in edges:
                edges.append((a, b))
    elif K['fwd'] == 'topo':
        edges = topo(r, buses)
        sc['topology'] = list(edges)
    for b in buses:
        hs = []
        for (a, c) in edges:
            if a == b:
                pat = '*' if r.random() < 0.8 else r.choice(types)
                hs.append({'bus': b, 'kind': 'forward', 'to': c, 'pattern': pat})
        for _ in range(r.choice(K['handlers_per_bus'])):
            x = r.random()
            if x < K['p_sync']:
                kind = r.choice(['sync', 'sync', 'smethod', 'sstatic']) if r.random() < K['p_method'] * 2 else 'sync'
            else:
                kind = r.choice(['amethod', 'aclassmethod']) if r.random() < K['p_method'] else 'async'
            pat = '*' if r.random() < K['p_wild'] else r.choice(types)
            hs.append({'bus': b, 'pattern': pat, 'by': 'name' if r.random() < K['p_byname'] else 'class', 'kind': kind,
                       'prog': prog(True, kind in ('sync', 'smethod', 'sstatic'), own=b)})
            if r.random() < K['p_late']:
                hs[-1]['late'] = True
            if K['p_cleanup'] and kind in ('async', 'amethod', 'aclassmethod') and r.random() < K['p_cleanup']:
                # a handler that needs time to unwind when it is cancelled (try/finally with awaits in it)
                hs[-1]['cleanup'] = r.choice([0.15, 0.3, 0.5])
            if r.random() < K['p_ret_container']:
                hi_ = len(sc['handlers']) + len(hs)
                hs[-1]['ret'] = r.choice([[hi_, hi_ + 100], {f'k{hi_}': hi_}, [f'x{hi_}']])
        r.shuffle(hs)
        sc['handlers'].extend(hs)
    for ci in range(r.choice(K['ncallers'])):
        p = []
        nvar = 0
        for _ in range(r.choice(K['caller_len'])):
            if r.random() < K['p_caller_pause']:
                p.append(['pause', dur(r, K['long_p'])])
            nvar += 1
            o = evopts()
            if nvar > 1 and r.random() < K['explicit_parent_p']:
                o['parent'] = f'r{r.randrange(1, nvar)}'
            p.append(['dispatch_await' if r.random() < K['p_caller_await'] else 'dispatch', r.choice(buses), r.choice(types), o, f'r{nvar}'])
            if r.random() < K['redispatch_caller_p']:
                p.append(['redispatch', r.choice(buses) if not K['own_bus_only'] else p[-1][1], f'r{nvar}'])
            if r.random() < K['caller_idle_p']:
                p.append(['wait_idle', r.choice(buses), None])
            if r.random() < K['results_p']:
                p.append(['await', f'r{nvar}'])
                p.append(['results', f'r{nvar}', r.choice(['event_result', 'event_results_list', 'event_results_by_handler_id', 'event_results_flat_dict', 'event_results_flat_list', 'event_results_flat_list']), r.random() < 0.5])
        sc['callers'].append({'prog': p})
    late = [hi for hi, h in enumerate(sc['handlers']) if h.get('late')]
    for hi in late:
        # registered by a caller somewhere in the middle of its traffic (or by a caller of its own after a pause)
        if r.random() < 0.7:
            c = r.choice(sc['callers'])
            c['prog'].insert(r.randrange(1, len(c['prog']) + 1), ['register', hi])
        else:
            sc['callers'].append({'prog': [['pause', dur(r)], ['register', hi]]})
    if r.random() < K['p_stop_fault']:
        victim = r.choice(buses)
        k = r.randrange(5, 320)
        act = r.choice([['stop', victim, None], ['stop', victim, 0], ['stop', victim, 0.05], ['cancel_runloop', victim]])
        sc['faults']['at_step'] = [[k, act]]
    if K['p_cancel_runloop'] and r.random() < K['p_cancel_runloop']:
        # the bus's background task is cancelled from outside (a task sweep, a TaskGroup going down) while the
        # program goes on using the bus
        sc['faults'].setdefault('at_step', []).append([r.randrange(3, 120), ['cancel_runloop', r.choice(buses)]])
    if r.random() < K['p_stall']:
        sc['faults']['stalls'] = sorted([[round(r.choice([0.0, 0.01, 0.05, 0.1, 0.5, 1.0]) + r.random() * 0.1, 6), r.choice([0.001, 0.05, 0.11, 0.3])] for _ in range(r.choice([1, 2, 3]))])
    return sc


# -----------------------------------------------------------------------------------------
# Profiles: name -> (knobs)
# -----------------------------------------------------------------------------------------
BASE_CLEAN = dict(nb=[1], own_bus_only=True, p_stall=0.0, ncallers=[1], p_caller_await=1.0, p_dispatch=0.0, p_dawait=0.45, shuffle_order=False,
                  max_depth=[1, 2, 2])

PROFILES = {
    # one serial bus, sequential caller, only dispatch+await children: no known defect's precondition can arise
    'clean': BASE_CLEAN,
    'single': dict(nb=[1], own_bus_only=True, p_raise=0.05),
    'multi': dict(nb=[2, 2, 3, 4], p_raise=0.03),
    'multi_fwd': dict(nb=[2, 3, 3, 4], fwd='some', p_raise=0.03),
    'parallel': dict(nb=[1, 2, 3], parallel_p=0.6),
    'redispatch': dict(nb=[1, 2, 3], p_redispatch=0.15, redispatch_caller_p=0.4),
    'nested': dict(nb=[1, 2, 3], max_depth=[2, 2], p_dawait=0.4, p_dispatch=0.3, p_gap=0.1),
    'gap': dict(nb=[1, 2, 3], p_gap=0.35, p_dawait=0.15),
    'await_any': dict(nb=[1, 1, 2, 3], p_dispatch=0.4, p_await_any=0.3, p_dawait=0.1, p_pause=0.1, prog_len=[2, 3, 4, 5], max_depth=[2, 2, 3]),
    'await_any_clean': dict(nb=[1], own_bus_only=True, ncallers=[1], p_caller_await=1.0, shuffle_order=False, p_dispatch=0.4, p_await_any=0.3, p_dawait=0.1,
                            p_pause=0.1, prog_len=[2, 3, 4, 5], max_depth=[1, 2]),
    'gap_fwd': dict(nb=[2, 3], p_gap=0.3, fwd='some'),
    'backlog': dict(nb=[1, 2, 3], ncallers=[2, 3], caller_len=[2, 3, 4], p_caller_await=0.3, p_dawait=0.4, p_gap=0.1),
    'topo': dict(nb=[1, 2, 3, 4, 5], fwd='topo', prog_len=[0, 0, 1, 2], p_dawait=0.15, p_dispatch=0.15),
    'topo_traffic': dict(nb=[2, 3, 4], fwd='topo', ncallers=[2, 3], p_dawait=0.3, p_gap=0.1),
    'topo_small_history': dict(nb=[2, 3, 4], fwd='topo', max_history=[2, 3, 5, 50], ncallers=[2, 3], caller_len=[3, 4, 5], p_caller_await=0.3, prog_len=[0, 0, 1, 2], p_dawait=0.15, p_late=0.15),
    'topo_redispatch': dict(nb=[2, 3, 4], fwd='topo', ncallers=[1, 2], p_dawait=0.2, p_redispatch=0.15, redispatch_caller_p=0.4),
    'late_reg': dict(nb=[1, 1, 2], p_late=0.5, p_wild=0.6, ntypes=[1, 2], ncallers=[1, 2], caller_len=[3, 4, 5], p_caller_await=0.7, p_caller_pause=0.2),
    'multi_stop': dict(nb=[3, 3, 4], p_stop_fault=1.0, ncallers=[2, 3], caller_len=[2, 3, 4], p_caller_await=0.3, p_pause=0.35, p_dispatch=0.3, p_dawait=0.2),
    'errors': dict(nb=[1, 2, 3], p_raise=0.2, p_return_exc=0.1, results_p=0.4, fwd='some', p_ret_container=0.4,
                   exc_kinds=['ValueError', 'KeyError', 'Boom', 'RuntimeError', 'QueueShutDown', 'QueueFull', 'LoopClosed', 'TimeoutError', 'OSError', 'Chained', 'Chained']),
    'errors_parallel': dict(exc_kinds=['ValueError', 'Boom', 'RuntimeError', 'QueueShutDown', 'QueueFull', 'LoopClosed', 'Chained'], nb=[1, 1, 2], parallel_p=0.8, p_raise=0.25, p_return_exc=0.1, results_p=0.3, handlers_per_bus=[2, 3, 3], p_wild=0.5, p_pause=0.35),
    'lineage': dict(nb=[1, 2, 3], parallel_p=0.4, p_readbus=0.2, explicit_parent_p=0.3, fwd='some', p_dispatch=0.35),
    'stalls': dict(nb=[1, 2, 3], p_stall=0.8, p_burn=0.1),
    'deep': dict(nb=[1, 2], max_depth=[3], p_dawait=0.4, p_wild=0.15, handlers_per_bus=[1, 2], prog_len=[0, 1, 1, 2], ncallers=[1, 1, 2], caller_len=[1, 2]),
    'recursion': dict(nb=[1, 2], max_depth=[3, 4], p_wild=0.7, p_dawait=0.5, handlers_per_bus=[1, 1, 2], prog_len=[0, 1, 1, 2], ncallers=[1, 1, 2], caller_len=[1, 2]),
    'small_history': dict(nb=[1, 2], max_history=[1, 2, 3, 5, 10], ncallers=[1, 2, 3], caller_len=[2, 3, 4, 5], p_caller_await=0.4),
    'small_history_flat': dict(nb=[1], own_bus_only=True, max_history=[1, 2, 3, 5], ncallers=[1, 2], caller_len=[3, 4, 5, 6], p_caller_await=0.5,
                               p_dawait=0.0, p_dispatch=0.0, p_gap=0.0, max_depth=[1]),
    'timeouts': dict(nb=[1, 2], short_timeouts=(0.5, [0.05, 0.1, 0.15, 0.5, 1.0, 2.0]), long_p=0.3, p_pause=0.4, p_dawait=0.35, max_depth=[1, 2, 2]),
    # handlers that hog the CPU past their own deadline: the cancellation lands at their next suspension point, wherever that is
    'timeouts_burn': dict(nb=[1, 2], short_timeouts=(0.6, [0.05, 0.1, 0.15]), p_pause=0.2, p_burn=0.3, p_dawait=0.4, p_dispatch=0.2, max_depth=[1, 2, 2],
                          ncallers=[1, 2, 3], caller_len=[2, 3, 4], p_caller_await=0.4),
    'timeouts_clean': dict(nb=[1], own_bus_only=True, ncallers=[1], p_caller_await=1.0, short_timeouts=(0.5, [0.05, 0.1, 0.5, 1.0]), long_p=0.3,
                           p_pause=0.5, p_dispatch=0.0, p_dawait=0.0, max_depth=[1]),
    'timeouts_cleanup': dict(nb=[2, 3], short_timeouts=(0.6, [0.05, 0.1, 0.15, 0.5]), long_p=0.3, p_pause=0.5, p_dawait=0.2, p_dispatch=0.15, p_cleanup=0.6,
                             ncallers=[2, 3], p_caller_await=0.3, max_depth=[1, 2]),
    'topo_timeouts': dict(nb=[2, 3, 4], fwd='topo', short_timeouts=(0.7, [0.05, 0.1, 0.15]), long_p=0.4, p_pause=1.0, p_yield=0.0, p_dispatch=0.0, p_dawait=0.0,
                          prog_len=[0, 1, 1, 2], handlers_per_bus=[1, 2, 2], ncallers=[1, 2], p_caller_await=0.5),
    'late_child': dict(nb=[1, 2, 3], p_spawn=0.3, p_dispatch=0.25, p_dawait=0.2, p_pause=0.25, ncallers=[1, 2], p_caller_await=0.6, fwd='some'),
    'idle_gap': dict(nb=[2, 2, 3], p_gap=0.45, p_pause=0.35, long_p=0.3, prog_len=[1, 2, 2, 3], p_dispatch=0.1, caller_idle_p=0.7, ncallers=[2, 3], p_caller_await=0.2, max_depth=[1, 2]),
    # wait_until_idle() callers next to handlers that time out while they process *another* bus's events inline (the
    # situation of F28: the bus becomes idle through an interrupted inline processing and nobody else can say so)
    'idle_timeouts': dict(nb=[2, 2, 3], ntypes=[1, 2], handlers_per_bus=[2, 3, 3], p_wild=0.6, p_sync=0.05, short_timeouts=(0.5, [0.05, 0.1, 0.15, 0.5]), long_p=0.6,
                          p_pause=0.45, p_dawait=0.25, p_gap=0.25, p_dispatch=0.05, p_yield=0.0, prog_len=[1, 1, 2, 2], max_depth=[1, 2], caller_idle_p=0.7, ncallers=[2, 3],
                          caller_len=[2, 3, 4], p_caller_await=0.2),
    # the same with forwarding: the bus that becomes idle is one that had forwarded the interrupted event (F26 on the cancelled path)
    'idle_timeouts_fwd': dict(nb=[2, 3, 3], fwd='some', ntypes=[1, 2], handlers_per_bus=[2, 3, 3], p_wild=0.6, p_sync=0.05, short_timeouts=(0.5, [0.05, 0.1, 0.15, 0.5]), long_p=0.6,
                              p_pause=0.45, p_dawait=0.25, p_gap=0.25, p_dispatch=0.05, p_yield=0.0, prog_len=[1, 1, 2, 2], max_depth=[1, 2], caller_idle_p=0.7, ncallers=[2, 3],
                              caller_len=[2, 3, 4], p_caller_await=0.2),
    'idle_race': dict(nb=[1, 2], caller_idle_p=0.6, ncallers=[2, 3], p_caller_await=0.3, p_raise=0.05),
    'idle_dead_loop': dict(nb=[1, 2], p_cancel_runloop=0.5, caller_idle_p=0.7, ncallers=[1, 2], caller_len=[2, 3, 4], p_caller_await=0.0, p_raise_cancelled=0.12, p_dawait=0.1, p_dispatch=0.2),
}


def gen_flood(seed: int, where: str) -> dict:
    """C14: bursts that cross the 50-queued / 100-in-flight limits, from callers or from inside a handler."""
    r = random.Random(seed * 7919 + 11)
    nb = r.choice([1, 1, 2])
    buses = [f'b{i}' for i in range(nb)]
    hist = r.choice([50, 50, 1000, 5, None])
    sc = {'v': 1, 'profile': 'flood_' + where, 'seed': seed, 'max_depth': 1, 'event_timeout': 300.0, 'faults': {},
          'buses': [{'name': b, 'parallel': False, 'max_history': hist} for b in buses],
          'bus_order': {'perm': list(range(nb)), 'rotate_every': 0}, 'handlers': [], 'callers': [], 'bounds': {'silence': 30.0}}
    slow = r.choice([0.0, 0.001, 0.01, 0.05])
    for b in buses:
        sc['handlers'].append({'bus': b, 'pattern': 'E1', 'kind': r.choice(['async', 'async', 'sync']), 'prog': [['pause', slow]] if slow else []})
        if r.random() < 0.3:
            sc['handlers'].append({'bus': b, 'pattern': '*', 'kind': 'async', 'prog': []})
    if where == 'handler':
        n = r.choice([30, 49, 50, 51, 55, 60, 99, 101, 110])
        tgt = r.choice(buses)
        prog = []
        for i in range(n):
            prog.append(['dispatch', tgt if r.random() < 0.9 else r.choice(buses), 'E1', {}, f'v{i}'])
            if r.random() < 0.03:
                prog.append(['yield', 1])
            if r.random() < 0.02:
                prog.append(['await', f'v{r.randrange(i + 1)}'])
        if r.random() < 0.35:
            # a dispatch attempted from a worker thread (no running loop there) in the middle of the handler
            prog.insert(r.randrange(len(prog) + 1), ['dispatch_noloop', tgt, 'E1', {}, 'nl'])
        sc['handlers'].append({'bus': buses[0], 'pattern': 'E0', 'kind': 'async', 'prog': prog})
        sc['callers'].append({'prog': [['dispatch_await' if r.random() < 0.7 else 'dispatch', buses[0], 'E0', {}, 'r0']]})
        if r.random() < 0.4:
            sc['callers'].append({'prog': [['pause', 0.001]] + [['dispatch', r.choice(buses), 'E1', {}, f'q{i}'] for i in range(r.choice([5, 20, 45]))]})
    else:
        for ci in range(r.choice([1, 1, 2])):
            n = r.choice([40, 50, 51, 60, 99, 100, 101, 130])
            prog = []
            for i in range(n):
                prog.append(['dispatch', r.choice(buses), 'E1', {}, f'r{i}'])
                x = r.random()
                if x < 0.03:
                    prog.append(['pause', r.choice([0.0, 0.001, 0.05])])
                elif x < 0.05:
                    prog.append(['await', f'r{r.randrange(i + 1)}'])
            sc['callers'].append({'prog': prog})
    return sc


def gen_stop(seed: int, k: int | None = None, kind: str | None = None) -> dict:
    """C16: a small base run (idle / backlog / handler mid-flight / inline processing / another bus awaiting)
    with stop(), run-loop cancel or cancel-all injected immediately before callback step k."""
    r = random.Random(seed * 104729 + 5)
    nb = r.choice([1, 1, 2])
    buses = [f'b{i}' for i in range(nb)]
    sc = {'v': 1, 'profile': 'stop', 'seed': seed, 'max_depth': 2, 'event_timeout': 300.0, 'no_final_idle': True,
          'buses': [{'name': b, 'parallel': r.random() < 0.15, 'max_history': 50} for b in buses],
          'bus_order': {'perm': r.sample(range(nb), nb), 'rotate_every': 0}, 'handlers': [], 'callers': []}
    # victim bus b0: handlers that take time; some await own-bus children (inline processing)
    for _ in range(r.choice([1, 2])):
        prog = []
        for _ in range(r.choice([0, 1, 2])):
            x = r.random()
            if x < 0.5:
                prog.append(['pause', dur(r)])
            elif x < 0.65:
                prog.append(['yield', r.choice([1, 2])])
            elif x < 0.85:
                prog.append(['dispatch_await', 'b0', 'E2', {}, 'x'])
            else:
                prog.append(['raise', 'ValueError'])
                break
        sc['handlers'].append({'bus': 'b0', 'pattern': r.choice(['E0', 'E1', '*']), 'kind': r.choice(['async', 'async', 'sync']), 'prog': prog})
    sc['handlers'].append({'bus': 'b0', 'pattern': 'E2', 'kind': 'async', 'prog': [['pause', dur(r)]] if r.random() < 0.5 else []})
    rich = nb > 1 and r.random() < 0.5
    if nb > 1 and not rich:
        # another bus whose handler awaits a child on the victim bus
        sc['handlers'].append({'bus': 'b1', 'pattern': 'E3', 'kind': 'async',
                               'prog': [['pause', dur(r)], ['dispatch_await', 'b0', r.choice(['E0', 'E1']), {}, 'c'], ['pause', dur(r)]]})
    if rich:
        # another bus with a backlog of its own whose handlers await children (on their own bus or on the victim):
        # its polling loops walk over all buses, the victim included, while the stop arrives
        sc['handlers'].append({'bus': 'b1', 'pattern': 'E3', 'kind': 'async',
                               'prog': [['pause', dur(r)], ['dispatch_await', r.choice(['b1', 'b1', 'b0']), r.choice(['E4', 'E0']), {}, 'c']]})
        sc['handlers'].append({'bus': 'b1', 'pattern': 'E4', 'kind': 'async', 'prog': [['pause', dur(r)]] if r.random() < 0.7 else []})
        sc['handlers'].append({'bus': 'b1', 'pattern': 'E5', 'kind': 'async', 'prog': [['pause', dur(r)]]})
    prog = []
    for i in range(r.choice([0, 1, 2, 3, 5, 8])):
        prog.append(['dispatch', 'b0', r.choice(['E0', 'E1']), {}, f'r{i}'])
        if r.random() < 0.2:
            prog.append(['pause', dur(r)])
    if nb > 1 and not rich and r.random() < 0.7:
        prog.insert(r.randrange(len(prog) + 1), ['dispatch', 'b1', 'E3', {}, 'q'])
    if rich:
        for j in range(r.choice([1, 2, 3])):
            prog.insert(r.randrange(len(prog) + 1), ['dispatch', 'b1', r.choice(['E3', 'E3', 'E5']), {}, f'q{j}'])
    if prog and r.random() < 0.3:
        prog.append(['await', 'r0'])
    prog.append(['pause', 1.5])
    sc['callers'].append({'prog': prog})
    kind = kind or r.choice(['stop', 'stop', 'stop', 'cancel_runloop', 'cancel_all'])
    k = k if k is not None else r.randrange(1, 260)
    if kind == 'stop':
        act = ['stop', 'b0', r.choice([None, None, 0, 0.05, 0.3])]
    elif kind == 'cancel_runloop':
        act = ['cancel_runloop', 'b0']
    else:
        act = ['cancel_all']
    sc['faults'] = {'at_step': [[k, act]]}
    return sc


PAYLOADS = [
    None, 0, -1, 2 ** 53 + 1, 1.5, True, '', 'plain', 'üñí¢ødé ✓ 日本', 'line\nbreak "quoted" \\ back', '\u2028sep', [],
    {}, [1, [2, [3, {'k': None}]]], {'a': {'b': {'c': [1, 2, {'d': 'é'}]}}}, {'$dt': '2024-02-29T12:30:00+00:00'},
    {'when': {'$dt': '1999-12-31T23:59:59.999999+00:00'}, 'tags': ['x', 'ÿ']}, {'k' * 40: 'v' * 200}, [None, False, 0, ''],
]
# payloads the JSON serialiser refuses: the WAL attempt fails before any I/O (must be reported, must not affect processing)
BAD_PAYLOADS = [{'$bytes': 'fffe'}, {'$object': 1}, {'blob': {'$bytes': 'c328'}}, [1, {'$object': 1}]]


def gen_wal(seed: int, fault_at: int | None = None, fault_kind: str | None = None, faulty: bool = False) -> dict:
    """C17: WAL-enabled buses, nested / forwarded / duplicated events, generated payloads, optional I/O faults."""
    r = random.Random(seed * 15485863 + 3)
    nb = r.choice([1, 1, 2, 2, 3])
    buses = [f'b{i}' for i in range(nb)]
    sc = {'v': 1, 'profile': 'wal', 'seed': seed, 'max_depth': r.choice([1, 2]), 'event_timeout': 300.0,
          'buses': [{'name': b, 'parallel': r.random() < 0.1, 'max_history': 50, 'wal': (i == 0 or r.random() < 0.6)} for i, b in enumerate(buses)],
          'bus_order': {'perm': r.sample(range(nb), nb), 'rotate_every': 0}, 'handlers': [], 'callers': [], 'faults': {}}
    types = ['E0', 'E1', 'E2']

    def opts():
        o = {}
        if r.random() < 0.7:
            o['payload'] = r.choice(PAYLOADS)
        if faulty and r.random() < 0.08:
            o['payload'] = r.choice(BAD_PAYLOADS)
        if r.random() < 0.25:
            o['extra'] = {r.choice(['x_note', 'x_count', 'user_id']): r.choice(['é', 7, [1, 2], {'$dt': '2030-01-01T00:00:00+00:00'}])}
        return o

    if nb > 1 and r.random() < 0.6:
        for _ in range(r.choice([1, 1, 2])):
            a, b = r.sample(buses, 2)
            sc['handlers'].append({'bus': a, 'kind': 'forward', 'to': b, 'pattern': '*'})
    for b in buses:
        for _ in range(r.choice([0, 1, 1, 2])):
            prog = []
            for _ in range(r.choice([0, 1, 1, 2])):
                x = r.random()
                if x < 0.3:
                    prog.append(['pause', r.choice([0.0, 0.001, 0.002, 0.003, 0.01])])
                elif x < 0.55:
                    prog.append(['dispatch', r.choice(buses), r.choice(types), opts(), 'v'])
                elif x < 0.85:
                    prog.append(['dispatch_await', r.choice(buses), r.choice(types), opts(), 'v'])
                elif x < 0.93:
                    prog.append(['raise', 'ValueError'])
                    break
                else:
                    prog.append(['redispatch_self', r.choice(buses)])
            sc['handlers'].append({'bus': b, 'pattern': r.choice(types + ['*']), 'kind': r.choice(['async', 'async', 'sync']), 'prog': prog})
    for ci in range(r.choice([1, 1, 2])):
        prog = []
        for i in range(r.choice([1, 2, 3, 4])):
            prog.append([r.choice(['dispatch', 'dispatch_await']), r.choice(buses), r.choice(types), opts(), f'r{i}'])
            if r.random() < 0.15:
                prog.append(['redispatch', r.choice(buses), f'r{i}'])
            if r.random() < 0.2:
                prog.append(['pause', r.choice([0.0, 0.001, 0.0025, 0.004])])
        sc['callers'].append({'prog': prog})
    lat = r.choice([[0.0, 0.0, 0.0], [0.0, 0.002, 0.003], [0.0, 0.0, 0.001], [0.0, 0.05, 0.06]])
    io = {'latency': lat, 'faults': {}}
    kinds = ['mkdir_error', 'open_error', 'write_error', 'short_write', 'close_error', 'open_error_runtime', 'write_error_value']
    if fault_at is not None:
        io['faults'][str(fault_at)] = fault_kind
    elif faulty:
        for _ in range(r.choice([1, 1, 2, 3])):
            # op index i is mkdir/open/write/close of attempt i//4 when no earlier fault shifted the sequence
            i = r.randrange(0, 40)
            io['faults'][str(i)] = kinds[i % 4] if r.random() < 0.7 else r.choice(kinds)
    sc['faults']['io'] = io
    return sc


def _wal_enum(seed):
    base, i = seed // 128, seed % 128
    op, variant = i // 2, i % 2
    kind = ['mkdir_error', 'open_error' if variant == 0 else 'open_error_runtime', 'write_error' if variant == 0 else ('short_write' if base % 2 else 'write_error_value'), 'close_error'][op % 4]
    return dict(gen_wal(base, fault_at=op, fault_kind=kind), profile='wal_enum', seed=seed)


PROFILES['wal'] = lambda seed: gen_wal(seed)
PROFILES['wal_faults'] = lambda seed: dict(gen_wal(seed, faulty=True), profile='wal_faults')
# enumeration: 128 consecutive seeds put a fault at every I/O op index 0..63 (both write-fault variants) of one base run
PROFILES['wal_enum'] = _wal_enum
def gen_expect(seed: int) -> dict:
    """C18: event streams x filters x timeouts x concurrent expect() calls x cancellation."""
    r = random.Random(seed * 32452843 + 9)
    nb = r.choice([1, 1, 1, 2])
    buses = [f'b{i}' for i in range(nb)]
    types = ['E0', 'E1']
    sc = {'v': 1, 'profile': 'expect', 'seed': seed, 'max_depth': 1, 'event_timeout': 300.0, 'faults': {},
          'buses': [{'name': b, 'parallel': r.random() < 0.1, 'max_history': 50} for b in buses],
          'bus_order': {'perm': list(range(nb)), 'rotate_every': 0}, 'handlers': [], 'callers': []}
    for b in buses:
        for _ in range(r.choice([0, 1, 2])):
            prog = [['pause', dur(r)]] if r.random() < 0.6 else []
            if r.random() < 0.1:
                prog.append(['raise', 'ValueError'])
            sc['handlers'].append({'bus': b, 'pattern': r.choice(types + ['*']), 'kind': r.choice(['async', 'async', 'sync']), 'prog': prog})
    if nb > 1 and r.random() < 0.5:
        sc['handlers'].append({'bus': 'b0', 'kind': 'forward', 'to': 'b1', 'pattern': '*'})

    def filt():
        f = {}
        x = r.random()
        if x < 0.3:
            f['inc'] = ['mod', r.choice([2, 3]), r.choice([0, 1])]
        elif x < 0.5:
            f['inc'] = ['ge', r.randrange(0, 9)]
        elif x < 0.6:
            f['inc'] = ['eq', r.randrange(0, 9)]
        elif x < 0.65:
            f['inc'] = ['raise', r.randrange(2, 9)]
        if r.random() < 0.3:
            f['exc'] = r.choice([['mod', 2, r.choice([0, 1])], ['eq', r.randrange(0, 9)], ['ge', r.randrange(4, 12)], ['raise', r.randrange(3, 9)]])
        if r.random() < 0.15:
            f['pred'] = r.choice([['ge', r.randrange(0, 6)], ['mod', 2, 0], ['false']])
        return f

    nexp = r.choice([1, 2, 2, 3, 4])
    for i in range(nexp):
        prog = []
        if r.random() < 0.6:
            prog.append(['pause', dur(r)])
        for _ in range(r.choice([1, 1, 2])):
            prog.append(['expect', r.choice(buses), r.choice(types), filt(), r.choice([0, 0, 0.05, 0.1, 0.1001, 0.15, 0.3, 0.5, 1.0]), r.choice(['class', 'name'])])
        sc['callers'].append({'prog': prog})
    # producers
    for _ in range(r.choice([1, 1, 2])):
        prog = []
        for i in range(r.choice([2, 4, 6, 9])):
            if r.random() < 0.5:
                prog.append(['pause', dur(r)])
            prog.append([r.choice(['dispatch', 'dispatch', 'dispatch_await']), r.choice(buses), r.choice(types), {'v': r.randrange(0, 10)}, f'r{i}'])
        sc['callers'].append({'prog': prog})
    # a canceller
    if r.random() < 0.5:
        sc['callers'].append({'prog': [['pause', dur(r)], ['cancel_caller', r.randrange(nexp)]]})
    if r.random() < 0.3:
        sc['faults']['at_step'] = [[r.randrange(5, 200), ['cancel_caller', r.randrange(nexp)]]]
    if r.random() < 0.2:
        sc['faults']['stalls'] = [[round(r.random() * 0.3, 6), r.choice([0.001, 0.05, 0.11])]]
    return sc


PROFILES['expect'] = gen_expect


def _expect_enum(seed):
    """cancel-point enumeration: 128 consecutive seeds cancel the first expecting caller before callback step
    1, 3, 5 ... 255 of one base run"""
    base, i = seed // 128, seed % 128
    sc = gen_expect(base)
    sc['faults']['at_step'] = [[2 * i + 1, ['cancel_caller', 0]]]
    sc['profile'] = 'expect_enum'
    sc['seed'] = seed
    return sc


PROFILES['expect_enum'] = _expect_enum
PROFILES['stop'] = lambda seed: gen_stop(seed)
# enumeration: 256 consecutive seeds place the fault before every callback step 1..256 of one base run
PROFILES['stop_enum'] = lambda seed: dict(gen_stop(seed // 256, k=seed % 256 + 1), profile='stop_enum', seed=seed)
PROFILES['flood_caller'] = lambda seed: gen_flood(seed, 'caller')
PROFILES['flood_handler'] = lambda seed: gen_flood(seed, 'handler')


def gen(profile: str, seed: int) -> dict:
    p = PROFILES[profile]
    if callable(p):
        return p(seed)
    return gen_bus(seed, p, profile)


def resched(sc: dict, seed: int) -> dict:
    """Schedule search: keep the program, re-draw only its timing (S2/S3/S4): every pause duration, every yield
    count, the bus iteration order and the stalls."""
    import copy
    r = random.Random(seed * 2654435761 % (2 ** 31) + 13)
    sc = copy.deepcopy(sc)
    for lst in (sc['handlers'], sc['callers']):
        for h in lst:
            for op in h.get('prog', []):
                if op[0] == 'pause' and op[1] < 1.4:
                    op[1] = dur(r)
                elif op[0] == 'yield':
                    op[1] = r.choice([1, 1, 2, 3])
    nb = len(sc['buses'])
    sc['bus_order'] = {'perm': r.sample(range(nb), nb), 'rotate_every': r.choice([0, 0, 0, 3, 7])}
    f = sc.setdefault('faults', {})
    if r.random() < 0.3:
        f['stalls'] = sorted([[round(r.choice([0.0, 0.01, 0.05, 0.1, 0.5]) + r.random() * 0.1, 6), r.choice([0.001, 0.05, 0.11, 0.3])] for _ in range(r.choice([1, 2]))])
    else:
        f.pop('stalls', None)
    return sc


SCHED_K = 16


def gen_sched(profile: str, seed: int) -> dict:
    """16 consecutive seeds = one program under 16 schedules (variant 0 = as generated)."""
    base, variant = seed // SCHED_K, seed % SCHED_K
    sc = gen(profile, base)
    if variant:
        sc = resched(sc, seed)
    sc['profile'] = 'sched:' + profile
    sc['seed'] = seed
    sc['program'] = base
    return sc


def gen_timeout_enum(seed: int) -> dict:
    """C10 fault-point enumeration: take a base program without short timeouts, run it once to learn the distinct
    handler-relative instants at which its handlers do something, then give the event of one activation a timeout
    equal to one of those instants -1us / exactly / +1us.  96 consecutive seeds walk through the instants of one base."""
    from .world import run_scenario
    from .facts import Facts
    base, i = seed // 96, seed % 96
    knobs = dict(PROFILES['timeouts'])
    knobs['short_timeouts'] = None
    knobs['long_p'] = 0.0
    sc = gen_bus(base, knobs, 'timeout_enum')
    w, res = run_scenario(sc)
    F = Facts(sc, w.recs, w.final, res)
    pts = []
    for a in sorted(F.acts.values(), key=lambda a: a.enter_seq):
        if sc['handlers'][a.hi].get('kind', 'async') not in ('async', 'amethod', 'aclassmethod'):
            continue
        rel = set()
        for r_ in F.recs:
            if r_[2] in ('new', 'disp') and r_[3 if r_[2] == 'disp' else 5] == a.id:
                rel.add(round(r_[1] - a.t_enter, 9))
        for aw in F.awaits:
            if aw.actor == a.id:
                rel.add(round(aw.tb - a.t_enter, 9))
                if aw.te is not None:
                    rel.add(round(aw.te - a.t_enter, 9))
        if a.t_exit is not None:
            rel.add(round(a.t_exit - a.t_enter, 9))
        sid = F.sid.get(a.ev, '')
        for t in sorted(rel):
            if t > 0:
                pts.append((sid, t))
    sc['seed'] = seed
    sc['program'] = base
    if not pts:
        return sc
    sid, t = pts[(i // 3) % len(pts)]
    tmo = round(max(1e-6, t + (-1e-6, 0.0, 1e-6)[i % 3]), 9)
    # locate the dispatch op that creates the event with this structural id
    last = sid.split('/')[-1]
    try:
        if '/' not in sid:
            ci, opi = last[1:].split('.')
            op = sc['callers'][int(ci)]['prog'][int(opi)]
        else:
            _, hpart, opi = last.split('.')
            op = sc['handlers'][int(hpart[1:])]['prog'][int(opi)]
        if op[0] in ('dispatch', 'dispatch_await'):
            op[3] = dict(op[3] or {}, timeout=tmo)
    except Exception:
        pass
    return sc


PROFILES['timeout_enum'] = gen_timeout_enum
