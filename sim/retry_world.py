"""Retry / semaphore worlds (C19, C20): the real bubus.helpers.retry decorator on the virtual-time loop."""
from __future__ import annotations

import asyncio
import collections
import hashlib
import random

from . import seams
from .loop import SimLoop, SimStop, teardown

import bubus.helpers as H
from bubus.helpers import retry

EPS = 1e-9


class ListedA(Exception):
    pass


class ListedB(ListedA):
    pass


class Unlisted(Exception):
    pass


EXC = {'ListedA': ListedA, 'ListedB': ListedB, 'Unlisted': Unlisted, 'ValueError': ValueError, 'TimeoutError': TimeoutError}


# ------------------------------------------------------------------------------------------
# C19
# ------------------------------------------------------------------------------------------
def gen_retry(seed: int, cancel_at=None) -> dict:
    r = random.Random(seed * 49979687 + 1)
    retries = r.choice([0, 1, 2, 3, 3, 5])
    wait = r.choice([0, 0.1, 0.5, 1, 3])
    backoff = r.choice([1.0, 1.0, 1.5, 2.0, 0.5])
    timeout = r.choice([0.5, 1, 5])
    retry_on = r.choice([None, None, ['ListedA'], ['ListedA', 'TimeoutError'], ['ValueError']])
    outs = []
    for _ in range(r.choice([1, 2, 3, 4, 7])):
        x = r.random()
        d = r.choice([0.0, 0.01, 0.3, timeout - 0.000001, timeout / 2])
        if x < 0.3:
            outs.append(['ok', d])
        elif x < 0.6:
            outs.append(['raise', d, r.choice(['ListedA', 'ListedB', 'Unlisted', 'ValueError'])])
        elif x < 0.8:
            outs.append(['overrun', r.choice([0.000001, 0.5, 10])])
        elif x < 0.9:
            outs.append(['raise_timeout', d])  # the function itself raises TimeoutError
        else:
            outs.append(['ok_exact', 0])  # sleeps exactly `timeout`: tie
    sc = {'v': 1, 'world': 'retry', 'profile': 'retry', 'seed': seed, 'retries': retries, 'wait': wait, 'backoff': backoff, 'timeout': timeout,
          'retry_on': retry_on, 'outcomes': outs, 'cancel_at': cancel_at, 'stalls': []}
    if cancel_at is None and r.random() < 0.35:
        sc['cancel_at'] = round(r.choice([0.0, 0.05, timeout, timeout + wait, r.random() * (timeout + wait) * (retries + 1)]) + r.choice([0, 0, 1e-6, -1e-6]), 9)
        if sc['cancel_at'] < 0:
            sc['cancel_at'] = 0.0
    if r.random() < 0.15:
        sc['stalls'] = [[round(r.random() * 3, 6), r.choice([0.001, 0.2, 1.0])]]
    return sc


def retry_model(sc):
    """Executable reference: returns (attempt_start_times, outcome, end_time, ties) in a stall-free run.
    outcome = ('ret', i) | ('exc', kind, i) | ('cancelled',).  ties = instants at which two timers coincide."""
    retries, wait, backoff, timeout = sc['retries'], sc['wait'], sc['backoff'], sc['timeout']
    retry_on = tuple(EXC[n] for n in sc['retry_on']) if sc['retry_on'] is not None else None
    outs = sc['outcomes']
    tc = sc.get('cancel_at')
    t = 0.0
    starts = []
    ties = set()
    for attempt in range(retries + 1):
        if tc is not None and tc <= t + EPS:
            if abs(tc - t) <= EPS:
                ties.add(round(t, 9))
            if tc < t - EPS or attempt == 0 or True:
                # cancelled before this attempt could start (or exactly when it would)
                if tc < t - EPS:
                    return starts, ('cancelled',), tc, ties
        starts.append(t)
        o = outs[min(attempt, len(outs) - 1)]
        kind = o[0]
        if kind == 'ok':
            d, res = o[1], ('ret', attempt)
        elif kind == 'ok_exact':
            d, res = timeout, ('ret', attempt)
            ties.add(round(t + timeout, 9))
        elif kind == 'raise':
            d, res = o[1], ('exc', o[2], attempt)
        elif kind == 'raise_timeout':
            d, res = o[1], ('exc', 'TimeoutError', attempt)
        else:
            d, res = timeout + o[1], ('ret', attempt)
        if d >= timeout - EPS and kind != 'ok_exact':
            d, res = timeout, ('exc', 'TimeoutError', attempt)
        elif kind == 'ok_exact':
            res = ('tie', attempt)
        tf = t + d
        if tc is not None and tc <= tf + EPS:
            if abs(tc - tf) <= EPS:
                ties.add(round(tf, 9))
            else:
                return starts, ('cancelled',), tc, ties
        if res[0] == 'ret':
            return starts, res, tf, ties
        if res[0] == 'tie':
            return starts, res, tf, ties
        exc_cls = EXC[res[1]]
        if retry_on is not None and not issubclass(exc_cls, retry_on):
            return starts, res, tf, ties
        if attempt < retries:
            t = tf + wait * (backoff ** attempt)
            if tc is not None and tc < t - EPS and tc > tf + EPS:
                return starts, ('cancelled',), tc, ties
        else:
            return starts, res, tf, ties
    raise AssertionError('unreachable')


def run_retry(sc):
    loop = SimLoop(horizon=100000.0, max_steps=200_000)
    errlog = seams.install(loop)
    loop.stalls = sorted([list(x) for x in sc.get('stalls', [])])
    calls = []
    raised = {}
    outs = sc['outcomes']
    retry_on = tuple(EXC[n] for n in sc['retry_on']) if sc['retry_on'] is not None else None

    @retry(wait=sc['wait'], retries=sc['retries'], timeout=sc['timeout'], backoff_factor=sc['backoff'], retry_on=retry_on)
    async def fn():
        i = len(calls)
        calls.append(round(loop.time(), 9))
        o = outs[min(i, len(outs) - 1)]
        k = o[0]
        if k == 'ok':
            await asyncio.sleep(o[1])
            return ('v', i)
        if k == 'ok_exact':
            await asyncio.sleep(sc['timeout'])
            return ('v', i)
        if k == 'raise':
            await asyncio.sleep(o[1])
            e = EXC[o[2]](f'attempt {i}')
            raised[i] = e
            raise e
        if k == 'raise_timeout':
            await asyncio.sleep(o[1])
            e = TimeoutError(f'attempt {i}')
            raised[i] = e
            raise e
        await asyncio.sleep(sc['timeout'] + o[1])
        return ('late', i)

    result = {}

    async def caller():
        try:
            v = await fn()
            result['out'] = ('ret', v[1], v[0])
        except asyncio.CancelledError:
            result['out'] = ('cancelled',)
            raise
        except BaseException as e:
            ident = next((i for i, x in raised.items() if x is e), None)
            result['out'] = ('exc', type(e).__name__, ident)
        finally:
            result['end'] = round(loop.time(), 9)
            result['calls_at_end'] = len(calls)

    async def main():
        t = asyncio.ensure_future(caller())
        tc = sc.get('cancel_at')
        if tc is not None:
            await asyncio.sleep(tc)
            t.cancel()
        try:
            await t
        except asyncio.CancelledError:
            pass
        # nothing may happen afterwards (no attempt after the outcome)
        await asyncio.sleep(sc['wait'] * max(1.0, sc['backoff']) ** (sc['retries'] + 1) + sc['timeout'] + 1)

    end = 'ok'
    try:
        loop.run_sim(main())
    except SimStop as s:
        end = 'cut:' + s.verdict
    except BaseException as e:
        end = 'harness:' + repr(e)
    res = {'end': end, 'calls': calls, 'out': result.get('out'), 'end_t': result.get('end'), 'calls_at_end': result.get('calls_at_end'),
           'steps': loop.steps, 'vt': loop.time(), 'stalls_fired': loop.stalls_fired, 'leftover': teardown(loop)}
    seams.uninstall()
    return res


def V(prop, clause, key, **detail):
    return {'prop': prop, 'clause': f'{prop}.{clause}', 'key': key, 'detail': detail, 'cause': 'unexplained'}


def check_retry(sc, res):
    out = []
    if res['end'] != 'ok':
        out.append(V('C19', 'hang', (res['end'],)))
        return out
    starts, want, tend, ties = retry_model(sc)
    calls = res['calls']
    got = res['out']
    stalled = res['stalls_fired'] > 0
    if len(calls) > sc['retries'] + 1:
        out.append(V('C19', 'too_many_attempts', (len(calls),), retries=sc['retries']))
    if len(calls) != res['calls_at_end']:
        out.append(V('C19', 'attempt_after_outcome', (len(calls), res['calls_at_end'])))
    tie = any(abs(t - x) <= 2e-9 for t in ties for x in ([res['end_t']] + calls))
    if got is None:
        out.append(V('C19', 'no_outcome', ()))
        return out
    if stalled:
        # with stalls only one-sided timing: never early
        for i, (a, b) in enumerate(zip(calls, starts)):
            if a < b - EPS:
                out.append(V('C19', 'attempt_early', (i,), got=a, want=b))
        return out
    if want[0] == 'tie' or (tie and sc.get('cancel_at') is not None):
        # two timers coincide: either order is legal; check only one-sided facts
        for i, (a, b) in enumerate(zip(calls, starts)):
            if abs(a - b) > EPS:
                out.append(V('C19', 'attempt_time', (i,), got=a, want=b))
        return out
    if len(calls) != len(starts):
        out.append(V('C19', 'attempt_count', (len(calls), len(starts)), calls=calls, model=starts))
    for i, (a, b) in enumerate(zip(calls, starts)):
        if abs(a - b) > EPS:
            out.append(V('C19', 'attempt_time', (i,), got=a, want=b))
            break
    if want[0] == 'ret':
        if got[0] != 'ret' or got[1] != want[1] or got[2] != 'v':
            out.append(V('C19', 'wrong_outcome', (str(got), str(want))))
    elif want[0] == 'cancelled':
        if got[0] != 'cancelled':
            out.append(V('C19', 'cancellation_swallowed', (str(got),)))
    else:
        if got[0] != 'exc' or got[1] != want[1]:
            out.append(V('C19', 'wrong_outcome', (str(got), str(want))))
        elif want[1] != 'TimeoutError' or sc['outcomes'][min(want[2], len(sc['outcomes']) - 1)][0] == 'raise_timeout':
            if got[2] != want[2]:
                out.append(V('C19', 'not_last_exception_object', (str(got), str(want))))
    if abs(res['end_t'] - tend) > EPS:
        out.append(V('C19', 'outcome_time', (res['end_t'], tend)))
    return out


# ------------------------------------------------------------------------------------------
# C20
# ------------------------------------------------------------------------------------------
def gen_sem(seed: int) -> dict:
    r = random.Random(seed * 67867967 + 7)
    nloops = r.choice([1, 1, 1, 2, 3])
    nfuncs = r.choice([1, 1, 2, 3])
    funcs = []
    shared_limit = r.choice([1, 2, 3])
    for fi in range(nfuncs):
        scope = r.choice(['global', 'global', 'class', 'self'])
        name = r.choice([None, 'shared', 'shared', f'n{fi}'])
        funcs.append({'scope': scope, 'name': name, 'limit': shared_limit if name == 'shared' else r.choice([1, 1, 2, 3]),
                      'lax': r.random() < 0.5, 'sem_timeout': r.choice([None, 0.5, 1.0, 2.0, 0]), 'timeout': r.choice([1.0, 2.0, 5.0]),
                      'retries': r.choice([0, 0, 1]), 'cls': r.randrange(2)})
    loops = []
    for li in range(nloops):
        callers = []
        for ci in range(r.choice([2, 3, 4, 6, 8])):
            fi = r.randrange(nfuncs)
            f = funcs[fi]
            body = r.choice([['ok', r.choice([0.1, 0.5, 1.0, 1.5])], ['ok', 0.0], ['raise', r.choice([0.0, 0.3])], ['overrun', 0.5]])
            callers.append({'f': fi, 'inst': r.randrange(2), 'arrive': round(r.choice([0.0, 0.0, 0.1, 0.5, 1.0, r.random() * 3]), 6), 'body': body,
                            'cancel_at': None})
            x = r.random()
            if x < 0.2:
                callers[-1]['cancel_at'] = round(r.random() * 3, 6)
            elif x < 0.3:
                # cancelled a moment after it arrived (while acquiring / just after acquiring / as the body starts)
                callers[-1]['cancel_at'] = round(callers[-1]['arrive'] + r.choice([0.0, 0.0005, 0.001, 0.0015]), 6)
        loops.append({'callers': callers})
    return {'v': 1, 'world': 'sem', 'profile': 'sem', 'seed': seed, 'funcs': funcs, 'loops': loops}


def _sem_timeout(f):
    st = f['sem_timeout']
    if st is None:
        return max(f['timeout'], f['timeout'] * (f['limit'] - 1))
    return 0.01 if st == 0 else st


def run_sem(sc):
    seams.reset_semaphores()
    trace = []
    viol = []
    steps = 0
    vt = 0.0
    stall_total = 0
    end = 'ok'
    classes = [type(f'K{i}', (), {}) for i in range(2)]
    insts = {(c, i): classes[c]() for c in range(2) for i in range(2)}
    # key -> limit is only known to the model through (scope, name, class, instance)
    bodies = {}

    def key_of(f, fi, inst):
        base = f['name'] or f'fn{fi}'
        if f['scope'] == 'global':
            return ('g', base)
        if f['scope'] == 'class':
            return ('c', f['cls'], base)
        return ('s', f['cls'], inst, base)

    decorated = []
    for fi, f in enumerate(sc['funcs']):
        def make(fi=fi, f=f):
            async def body(self_or_none, cid, spec):
                st = bodies[cid]
                st['enter'].append(round(asyncio.get_event_loop().time(), 9))
                st['world'].on_enter(cid)
                try:
                    k = spec[0]
                    if k == 'ok':
                        await asyncio.sleep(spec[1])
                        return cid
                    if k == 'raise':
                        await asyncio.sleep(spec[1])
                        raise ListedA('body')
                    await asyncio.sleep(f['timeout'] + spec[1])
                    return cid
                finally:
                    st['exit'].append(round(asyncio.get_event_loop().time(), 9))
                    st['world'].on_exit(cid)

            kw = dict(wait=0.01, retries=f['retries'], timeout=f['timeout'], semaphore_limit=f['limit'], semaphore_name=f['name'],
                      semaphore_lax=f['lax'], semaphore_scope=f['scope'], semaphore_timeout=f['sem_timeout'])
            if f['scope'] == 'global':
                async def fn(cid, spec):
                    return await body(None, cid, spec)
                fn.__name__ = f'fn{fi}'
                return retry(**kw)(fn), None
            else:
                async def meth(self, cid, spec):
                    return await body(self, cid, spec)
                meth.__name__ = f'fn{fi}'
                return retry(**kw)(meth), f['cls']
        decorated.append(make())

    class W:
        pass

    for li, lp in enumerate(sc['loops']):
        loop = SimLoop(horizon=100000.0, max_steps=300_000)
        seams.install(loop)
        world = W()
        active = collections.defaultdict(set)  # key -> cids currently inside a body
        info = {}

        def on_enter(cid, active=active, info=info, loop=loop, li=li):
            c = info[cid]
            key = c['key']
            f = sc['funcs'][c['f']]
            now = round(loop.time(), 9)
            waited = now - c['arrive_t']
            overflow = f['lax'] and abs(waited - _sem_timeout(f)) <= 1e-9 and len(bodies[cid]['enter']) == 1
            c['overflow'] = c.get('overflow') or overflow
            if not c['overflow']:
                holders = [x for x in active[key] if not info[x].get('overflow')]
                if len(holders) + 1 > f['limit']:
                    viol.append(V('C20', 'limit_exceeded', (li, str(key)), holders=len(holders) + 1, limit=f['limit'], t=now))
            active[key].add(cid)
            trace.append((li, now, 'enter', cid, c['overflow']))

        def on_exit(cid, active=active, info=info, loop=loop, li=li):
            active[info[cid]['key']].discard(cid)
            trace.append((li, round(loop.time(), 9), 'exit', cid))

        world.on_enter, world.on_exit = on_enter, on_exit
        results = {}

        async def call(cid, c, probe=False):
            f = sc['funcs'][c['f']]
            fn, cls = decorated[c['f']]
            await asyncio.sleep(c['arrive'])
            info[cid]['arrive_t'] = round(loop.time(), 9)
            trace.append((li, info[cid]['arrive_t'], 'arrive', cid))
            try:
                if cls is None:
                    v = await fn(cid, c['body'])
                else:
                    v = await fn(insts[(cls, c['inst'])], cid, c['body'])
                results[cid] = ('ret', round(loop.time(), 9))
            except asyncio.CancelledError:
                results[cid] = ('cancelled', round(loop.time(), 9))
            except BaseException as e:
                import re as _re
                results[cid] = ('exc:' + type(e).__name__, round(loop.time(), 9), _re.sub(r'0x[0-9a-f]+', '0xN', str(e))[:120] if isinstance(e, RuntimeError) else '')
            trace.append((li, round(loop.time(), 9), 'done', cid, results[cid][0]))

        async def main():
            tasks = {}
            for ci, c in enumerate(lp['callers']):
                cid = f'L{li}c{ci}'
                f = sc['funcs'][c['f']]
                info[cid] = {'f': c['f'], 'key': key_of(f, c['f'], c['inst']), 'arrive_t': None}
                bodies[cid] = {'enter': [], 'exit': [], 'world': world}
                tasks[cid] = asyncio.ensure_future(call(cid, c))
            cancels = sorted((c['cancel_at'], f'L{li}c{ci}') for ci, c in enumerate(lp['callers']) if c.get('cancel_at') is not None)
            t0 = 0.0
            for tc, cid in cancels:
                await asyncio.sleep(max(0.0, tc - t0))
                t0 = tc
                if not tasks[cid].done():
                    trace.append((li, round(loop.time(), 9), 'cancel', cid))
                    tasks[cid].cancel()
            await asyncio.wait(list(tasks.values()))
            await asyncio.sleep(0.5)
            # capacity probe after quiescence, one per distinct key used in this loop: L+1 fresh callers
            seen = {}
            for ci, c in enumerate(lp['callers']):
                k = info[f'L{li}c{ci}']['key']
                seen.setdefault(k, (c['f'], c['inst']))
            for k, (fi, inst) in sorted(seen.items(), key=lambda x: str(x[0])):
                f = sc['funcs'][fi]
                # every function sharing the key may have a different limit: the semaphore was created by whoever came first
                L = next((sc['funcs'][c2['f']]['limit'] for lp2 in sc['loops'][:li + 1] for c2 in lp2['callers']
                          if key_of(sc['funcs'][c2['f']], c2['f'], c2['inst']) == k), f['limit'])
                if _sem_timeout(f) <= 1.0:
                    continue  # probe needs callers that are willing to wait
                t_probe = round(loop.time(), 9)
                ptasks = []
                for j in range(L + 1):
                    cid = f'L{li}p{fi}_{inst}_{j}'
                    info[cid] = {'f': fi, 'key': k, 'arrive_t': None, 'probe': True}
                    bodies[cid] = {'enter': [], 'exit': [], 'world': world}
                    ptasks.append(asyncio.ensure_future(call(cid, {'f': fi, 'inst': inst, 'arrive': 0.0, 'body': ['ok', 0.25]})))
                await asyncio.wait(ptasks)
                immediate = sum(1 for j in range(L + 1) if bodies[f'L{li}p{fi}_{inst}_{j}']['enter'] and abs(bodies[f'L{li}p{fi}_{inst}_{j}']['enter'][0] - t_probe) <= 1e-9)
                errs = [results[f'L{li}p{fi}_{inst}_{j}'] for j in range(L + 1) if results[f'L{li}p{fi}_{inst}_{j}'][0].startswith('exc')]
                if errs:
                    viol.append(V('C20', 'probe_error', (li, str(k)), errors=[str(e) for e in errs[:2]]))
                elif immediate != L:
                    viol.append(V('C20', 'capacity_after_quiescence', (li, str(k)), admitted_at_once=immediate, limit=L))
                await asyncio.sleep(0.1)

        try:
            loop.run_sim(main())
        except SimStop as s:
            end = 'cut:' + s.verdict
        except BaseException as e:
            end = 'harness:' + repr(e)[:300]
        # per-caller post checks
        for ci, c in enumerate(lp['callers']):
            cid = f'L{li}c{ci}'
            f = sc['funcs'][c['f']]
            r_ = results.get(cid)
            if r_ is None:
                continue
            at = info[cid]['arrive_t']
            if r_[0] == 'exc:TimeoutError' and not bodies[cid]['enter']:
                # acquisition timeout
                if f['lax']:
                    viol.append(V('C20', 'lax_caller_got_timeout', (cid,)))
                elif abs((r_[1] - at) - _sem_timeout(f)) > 1e-9:
                    viol.append(V('C20', 'acquire_timeout_at_wrong_time', (cid,), waited=r_[1] - at, sem_timeout=_sem_timeout(f)))
            if r_[0] == 'exc:RuntimeError':
                viol.append(V('C20', 'runtime_error', (li, r_[2][:110])))
            if r_[0] == 'exc:TimeoutError' and bodies[cid]['enter'] and not f['lax'] and False:
                pass
        steps += loop.steps
        vt += loop.time()
        teardown(loop)
        seams.uninstall()
        if end != 'ok':
            break
    return {'end': end, 'trace': trace, 'viol': viol, 'steps': steps, 'vt': vt, 'leftover': 0,
            'nloops': len(sc['loops']), 'overflows': sum(1 for t in trace if t[2] == 'enter' and t[4]),
            'cancels': sum(1 for t in trace if t[2] == 'cancel'), 'acq_timeouts': sum(1 for t in trace if t[2] == 'done' and t[4] == 'exc:TimeoutError')}


def digest_of(obj) -> str:
    return hashlib.sha256(repr(obj).encode()).hexdigest()[:16]
