"""Cause diagnosis: for each violation look, for the very events / activations it names,
for the trigger pattern of a listed mechanism in the recorded history.  A cause is a
fact about the history that pins the failure on one mechanism; co-occurrence elsewhere
in the run is never enough.  No match -> 'unexplained' (always reported)."""
from __future__ import annotations

from .facts import Facts


def _inline_parent(F: Facts, act):
    """The activation whose polling loop processed the event `act` runs for (None = a run loop)."""
    a = F.acts.get(act)
    if a is None:
        return None
    for p in F.pe.get((a.bus, a.ev), ()):
        if p[0] < a.enter_seq and (p[1] is None or p[1] > a.enter_seq):
            m = p[2]
            return m.split(':', 1)[1] if m.startswith('inline:') else None
    return None


def _chain(F: Facts, act):
    out = [act]
    seen = {act}
    while True:
        p = _inline_parent(F, out[-1])
        if p is None or p in seen:
            break
        out.append(p)
        seen.add(p)
    return out


def multi_bus_early_signal(F: Facts, ev):
    """F4 mechanism: ev was accepted by >= 2 buses and its completion was signalled before
    every accepting bus had finished processing it."""
    buses = [b for (b, e) in F.accepted if e == ev]
    if len(buses) < 2:
        return False
    s = F.sig.get(ev)
    if s is None:
        return False
    for b in buses:
        done = [p[1] for p in F.pe.get((b, ev), ()) if p[1] is not None]
        if not done or min(done) > s:
            return True
    return False


def runloop_held(F: Facts, ev, at_seq):
    """F1/F14 mechanism: a run loop had dequeued ev before at_seq and had not begun processing it."""
    for (b, e), lst in F.deq.items():
        if e != ev:
            continue
        for seq, mode in lst:
            if mode == 'runloop' and seq < at_seq:
                begun = [p[0] for p in F.pe.get((b, e), ()) if p[0] > seq]
                if not begun or min(begun) > at_seq:
                    return True
    return False


def runloop_took_legitimately(F: Facts, ev, aw):
    """F1 mechanism, precisely: a run loop dequeued `ev` and had not begun to process it when the await gave up,
    AND it got the chance to do so in a way the polling loop really offers: either before the await began (the
    handler yielded between dispatch and await), or while the awaiting handler was busy processing some other
    event inline.  A run loop that grabs the child right after the await began, with nothing processed inline in
    between, means the polling loop yielded before looking at the queues - that is not F1."""
    at = aw.e if aw.e is not None else F.last_seq
    for (b, e), lst in F.deq.items():
        if e != ev:
            continue
        for seq, mode in lst:
            if mode != 'runloop' or seq > at:
                continue
            begun = [p[0] for p in F.pe.get((b, e), ()) if p[0] > seq]
            if begun and min(begun) < at:
                continue  # processed in time after all
            if seq < aw.b:
                return True
            inline = 'inline:' + aw.actor
            if any(p[2] == inline and aw.b < p[0] < seq for lst2 in F.pe.values() for p in lst2):
                return True
    return False


def held_by_parallel_sibling(F: Facts, ev, awaiter, at_seq):
    """F15 mechanism: on a parallel_handlers bus another awaiting handler's polling loop took ev
    (or one of its descendants) and was still processing it when `awaiter` gave up."""
    for x in [ev] + sorted(F.desc(ev)):
        for (b, e), lst in F.pe.items():
            if e != x:
                continue
            for p in lst:
                if p[0] < at_seq and (p[1] is None or p[1] > at_seq) and p[2].startswith('inline:'):
                    other = p[2].split(':', 1)[1]
                    if other == awaiter or awaiter in _chain(F, other):
                        continue
                    for a in _chain(F, other):
                        for bb in _chain(F, awaiter):
                            if a != bb:
                                A, B = F.acts[a], F.acts[bb]
                                if A.bus == B.bus and A.ev == B.ev and F.bus_cfg.get(A.bus, {}).get('parallel'):
                                    return True
    return False


def drain_round_robin_ok(F: Facts, awaiter, bus, ev, awaited=None):
    """Was taking `ev` from `bus` consistent with 'one event per bus per pass'?  Looks at the previous event the
    same polling loop took from the same bus: between the end of that event's processing and this dequeue, every
    other bus that had an event waiting the whole time must have been served by this loop."""
    mode = 'inline:' + awaiter
    # what this polling loop served: every processing it began itself - taken from the queue, or taken over from the
    # bus's run loop, which had dequeued the event but was still waiting for the global lock
    mine = sorted((p[0], b, e) for (b, e), lst in F.pe.items() for p in lst if p[2] == mode)
    # only the polling loop of the one await in question (an activation may await several events in turn)
    dq = next((x[0] for x in mine if x[1] == bus and x[2] == ev), None)
    aw = next((a for a in F.awaits if a.actor == awaiter and (awaited is None or a.ev == awaited)
               and dq is not None and a.b < dq and (a.e is None or a.e > dq)), None)
    if aw is not None:
        mine = [x for x in mine if x[0] > aw.b and (aw.e is None or x[0] < aw.e)]
    cur = next((i for i, x in enumerate(mine) if x[1] == bus and x[2] == ev), None)
    if cur is None:
        return True
    prev = next((i for i in range(cur - 1, -1, -1) if mine[i][1] == bus), None)
    if prev is None:
        return True
    if (F.sc.get('bus_order') or {}).get('rotate_every'):
        # the iteration order of the bus registry rotates between passes in this run (seam, models a re-hash): a bus
        # can be last in one pass and first in the next, so two takes in a row are still one per pass - judge the
        # take before the previous one
        prev = next((i for i in range(prev - 1, -1, -1) if mine[i][1] == bus), None)
        if prev is None:
            return True
    pe_prev = [p[1] for p in F.pe.get((bus, mine[prev][2]), ()) if p[0] >= mine[prev][0] and p[1] is not None]
    if not pe_prev:
        return True
    start, end = min(pe_prev), mine[cur][0]
    served = {x[1] for x in mine[prev + 1:cur]}
    for other in F.bus_cfg:
        if other == bus or other in served or F.bus_stopped_before(other, end):
            continue
        # an event accepted by `other` before `start` whose processing nobody began until `end` (an event that the
        # bus's run loop has dequeued but not started is still served by the polling loop)
        for (b2, e2), acc in F.accepted.items():
            if b2 != other or acc > start:
                continue
            pb = [p[0] for p in F.pe.get((b2, e2), ())]
            if not pb or min(pb) > end:
                return False
    return True


def guard_raised(F: Facts, ev):
    """F2 mechanism: the recursion guard refused a handler of ev (the refusal escaped from process_event, or -
    since the fix that records it - is the handler's error result)."""
    for (b, e), lst in F.pe.items():
        if e == ev:
            for p in lst:
                if p[3] and p[3][0] == 'RuntimeError' and 'Infinite loop' in p[3][1]:
                    return True
    for r in F.final.get('events', {}).get(ev, {}).get('results', ()):
        if r.get('err') == 'RuntimeError' and 'Infinite loop' in (r.get('err_msg') or ''):
            return True
    return False


def aborted_unrelated(F: Facts, ev):
    """F5b mechanism: processing of ev was aborted by the cancellation (timeout) of an awaiting
    handler that was draining it inline although ev is not a descendant of that handler's event."""
    for (b, e), lst in F.pe.items():
        if e == ev:
            for p in lst:
                if p[3] and p[3][0] == 'CancelledError' and p[2].startswith('inline:'):
                    act = p[2].split(':', 1)[1]
                    root = None
                    for a in _chain(F, act):
                        aa = F.acts.get(a)
                        # (cancelled in this very cascade: same virtual instant as the aborted processing)
                        if aa is not None and aa.how == 'cancelled' and aa.t_exit is not None and p[5] is not None and abs(aa.t_exit - p[5]) < 1e-9:
                            root = aa
                    # the outermost cancelled activation in the chain is the one whose timeout fired
                    if root is not None and ev not in F.desc(root.ev) and ev != root.ev:
                        return True
    return False


def aborted_any(F: Facts, bus, ev):
    for p in F.pe.get((bus, ev), ()):
        if p[3] and p[3][0] == 'CancelledError':
            return True
    return False


def evicted_in_flight(F: Facts, ev):
    """F11 mechanism: ev was evicted from a bus history before its completion was signalled."""
    s = F.sig.get(ev)
    for seq, bus, before, victims, N in F.evicts:
        if ev in victims and (s is None or s > seq):
            return True
    return False


def ancestors(F: Facts, ev):
    out = []
    seen = set()
    cur = ev
    while True:
        a = F.acts.get(F.creator.get(cur))
        if a is None or a.ev in seen:
            break
        out.append(a.ev)
        seen.add(a.ev)
        cur = a.ev
    return out


def runloop_killed_by_handler(F: Facts, bus):
    """F23 mechanism: a handler run by this bus's run loop ended with a CancelledError of its own making; the run
    loop takes it for its own cancellation and exits silently (seq of that moment, or None)."""
    return (runloop_kills(F, bus) or [None])[0]


def runloop_kills(F: Facts, bus):
    out = []
    for seq, act in F.self_cancelled:
        a = F.acts.get(act)
        if a is None:
            continue
        chain = _chain(F, act)
        root = F.acts.get(chain[-1])
        if root is not None and root.bus == bus:
            # the instant that matters is when the run-loop task actually ended
            ends = [s for s, b in F.runloop_exits if b == bus and s > seq]
            out.append(min(ends) if ends else seq)
    return out


def aborted_by_self_cancel(F: Facts, ev):
    """F23 (inline variant): processing of ev was aborted by the CancelledError that one of its own handlers, or a
    handler nested below it through inline processing, raised by itself."""
    for seq, act in F.self_cancelled:
        for a in _chain(F, act):
            aa = F.acts.get(a)
            if aa is not None and aa.ev == ev:
                return True
    return False


def why_incomplete(F: Facts, ev, depth=0, seen=None):
    """Set of mechanisms explaining why ev never got its completion signalled."""
    seen = seen if seen is not None else set()
    if ev in seen or depth > 12:
        return set()
    seen.add(ev)
    causes = set()
    if guard_raised(F, ev):
        causes.add('F2')
    if aborted_unrelated(F, ev):
        causes.add('F5b')
    for (b, e) in F.accepted:
        if e == ev and F.bus_stopped_before(b):
            causes.add('bus_stopped')
    for c in F.kids.get(ev, ()):
        if c not in F.sig:
            causes |= why_incomplete(F, c, depth + 1, seen)
    if not causes:
        # children all signalled, own processing finished, yet never signalled: the upward completion walk
        # (a lookup of each parent id in the bus histories) stopped at an ancestor that had been evicted
        for d in F.desc(ev):
            sd = F.sig.get(d)
            if sd is None:
                continue
            for x in ancestors(F, d):
                if any(x in victims and seq < sd for seq, bus, before, victims, N in F.evicts):
                    causes.add('F11')
                if x == ev:
                    break
    return causes


def restarted_after_stop(F: Facts):
    """F16 mechanism: some bus was dispatched to / waited on after its stop() had begun."""
    for x in F.stops:
        if F.restart_after_stop(x[0], x[1]) is not None:
            return True
    for seq, t, target, by in F.cancels:
        if target.startswith('runloop:') and F.restart_after_stop(target.split(':', 1)[1], seq) is not None:
            return True
    return False


def _hang_cause(F: Facts, v):
    causes = set()
    if v['detail'].get('verdict') == 'LIVELOCK' and restarted_after_stop(F):
        return 'F16'
    waiting = v['detail'].get('waiting', [])
    for kind, actor, what in waiting:
        if kind == 'await':
            c = why_incomplete(F, what)
            if not c:
                # a descendant may be stuck in-flight (its handler deadlocked): look for live awaits below
                c = set()
            causes |= c or {'unexplained'}
        elif kind == 'wait_idle':
            st = F.final.get('buses', {}).get(what, {}).get('state')
            names = st[3] if st else ()
            c = set()
            for n in names:
                c |= why_incomplete(F, n) or {'unexplained'}
            causes |= c or {'unexplained'}
        elif kind == 'stop':
            causes.add('unexplained')
    if not waiting:
        causes.add('unexplained')
    if 'unexplained' in causes:
        return 'unexplained'
    return '+'.join(sorted(causes))


def diagnose(F: Facts, v) -> str:
    cl = v['clause'].split('.', 1)[1]
    prop = v['prop']
    key = v['key']
    if cl == 'hang':
        return _hang_cause(F, v)
    if prop in ('C01', 'C14') and cl in ('missing', 'accepted_missing'):
        bus, ev, hi = key
        if guard_raised(F, ev):
            return 'F2'
        if aborted_unrelated(F, ev):
            return 'F5b'
        return 'unexplained'
    if prop == 'C02' and cl == 'inversion':
        bus, e1, e2 = key
        pb2 = F.pe[(bus, e2)][0][0]
        # F14: the run loop sits on e1 (blocked on the global lock) while an *awaiting handler* drains e2 inline.
        # A run loop that itself processes e2 before an e1 it had already taken is not that mechanism.
        if runloop_held(F, e1, pb2) and F.pe[(bus, e2)][0][2].startswith('inline:'):
            return 'F14'
        return 'unexplained'
    if (prop == 'C02' and cl == 'serial_overlap') or (prop == 'C06' and cl == 'overlap'):
        x, y = v['detail']['started'], v['detail']['running']
        cx, cy = _chain(F, x), _chain(F, y)
        for a in cx:
            for b in cy:
                if a == b:
                    continue
                A, B = F.acts[a], F.acts[b]
                if A.bus == B.bus and A.ev == B.ev and F.bus_cfg.get(A.bus, {}).get('parallel'):
                    return 'F15'
        return 'unexplained'
    if prop in ('C03', 'C04') and cl in ('descendant_incomplete', 'incomplete_at_return', 'results_not_terminal', 'child_incomplete_at_return'):
        actor, ev = key[0], key[1]
        aw = next((a for a in F.awaits if a.actor == actor and a.ev == ev and a.e is not None), None)
        at = aw.e if aw else F.last_seq
        targets = [ev] if cl != 'descendant_incomplete' else [key[2]]
        causes = set()
        for t in targets:
            # the awaited event, the offending descendant, everything between and below them
            cand = {ev, t} | set(F.desc(t))
            for anc in ancestors(F, t):
                cand.add(anc)
                if anc == ev:
                    break
            if any(multi_bus_early_signal(F, x) for x in cand):
                causes.add('F4')
            if prop == 'C04' and held_by_parallel_sibling(F, t, actor, at):
                causes.add('F15')
            if t not in F.sig:
                causes |= why_incomplete(F, t)
            elif any(aborted_unrelated(F, x) for x in [t] + sorted(F.desc(t))):
                causes.add('F5b')  # its processing had been aborted by an unrelated handler's timeout (completed later)
        if not causes:
            return 'unexplained'
        return '+'.join(sorted(causes))
    if prop in ('C04', 'C11') and cl in ('raised', 'await_raised'):
        actor, ev = key[0], key[1]
        if v['detail'].get('outcome') == 'exc:RuntimeError' and (guard_raised(F, ev) or any(guard_raised(F, d) for d in F.desc(ev))):
            return 'F2'
        # the inline loop may have been draining an unrelated event when the guard fired
        if v['detail'].get('outcome') == 'exc:RuntimeError':
            for aw in F.awaits:
                if aw.actor != actor or aw.ev != ev or aw.e is None or aw.outcome != 'exc:RuntimeError':
                    continue
                for (b, e), lst in F.pe.items():
                    for p in lst:
                        if p[3] and p[3][0] == 'RuntimeError' and 'Infinite loop' in p[3][1] and aw.b < p[0] < aw.e and p[2] == 'inline:' + actor:
                            return 'F2'
        return 'unexplained'
    if prop == 'C05' and cl == 'unrelated_in_window':
        actor, ev, other = key
        act = v['detail']['act']
        if v['detail'].get('after_await_returned'):
            # the await had already returned with the child incomplete: whatever explains that (C04) explains this
            aw = next((a for a in F.awaits if a.actor == actor and a.ev == ev and a.e is not None), None)
            if aw is not None and aw.outcome.startswith('exc:'):
                v4 = {'prop': 'C04', 'clause': 'C04.raised', 'key': (actor, ev), 'detail': {'outcome': aw.outcome}}
            else:
                v4 = {'prop': 'C04', 'clause': 'C04.child_incomplete_at_return', 'key': (actor, ev), 'detail': {}}
            return diagnose(F, v4)
        ch = _chain(F, act)
        if actor in ch[1:]:
            # F0 is the documented drain policy: one event per bus per pass over all buses.  A polling loop that
            # takes a second event from a bus while another running bus had work waiting the whole time is not F0.
            drainer = ch[ch.index(actor) - 1]  # the activation whose event was taken directly by `actor`'s loop
            d = F.acts.get(drainer)
            if d is not None and not drain_round_robin_ok(F, actor, d.bus, d.ev, ev):
                return 'unexplained'
            return 'F0'
        # run concurrently with the awaiter: only legal mechanism is a parallel bus (F15)
        for a in _chain(F, act):
            for b in _chain(F, actor):
                if a != b:
                    A, B = F.acts[a], F.acts[b]
                    if A.bus == B.bus and A.ev == B.ev and F.bus_cfg.get(A.bus, {}).get('parallel'):
                        return 'F15'
        return 'unexplained'
    if cl in ('event_incomplete', 'result_left_nonterminal'):
        ev = key[0]
        c = why_incomplete(F, ev)
        return '+'.join(sorted(c)) if c else 'unexplained'
    if prop == 'C08' and cl == 'changed_after_complete':
        ev = key[0]
        obs = v['detail'].get('observed_at', 0)
        buses = [x.split(':', 1)[1] for x in v['detail'].get('what', ()) if ':' in x]
        # F4: the bus whose handlers changed the event had accepted it before completion was observed
        if buses and all(F.accepted.get((b, ev), 1 << 60) < obs for b in buses) and len([1 for (b, e) in F.accepted if e == ev]) >= 2:
            return 'F4'
        return 'unexplained'
    if prop == 'C09' and cl == 'event_bus':
        act, want, got = key
        a = F.acts.get(act)
        if a is not None:
            path = F.final.get('events', {}).get(a.ev, {}).get('path', ())
            if want in path and got in path and path.index(got) > path.index(want):
                return 'F9'
        return 'unexplained'
    if prop == 'C15' and cl == 'late_return':
        # (F28 - late idle flag after an *interrupted* inline processing - was repaired in /repo c5c063c; its pin
        # findings/F28.json is replayed by every C15 check as a regression test, and no late return is excused any more)
        return 'unexplained'
    if prop == 'C17' and cl == 'written_before_handlers_finished':
        bus, ev = key
        # F21: the same event was accepted twice by this bus and the second (no-op) processing ran, and wrote its
        # line, inside the first one
        lst = F.pe.get((bus, ev), ())
        for p in lst:
            for q in lst:
                if p is not q and p[0] < q[0] and (p[1] is None or (q[1] is not None and q[1] < p[1])):
                    return 'F21'
        return 'unexplained'
    if prop == 'C16' and cl == 'handler_after_stop':
        bus, ev, hi = key
        a = F.acts.get(v['detail'].get('act'))
        st = next((x for x in F.stops if x[0] == bus and x[2] is not None and a is not None and x[2] < a.enter_seq), None)
        if a is not None and st is not None:
            for p in F.pe.get((bus, ev), ()):
                # F20: the event's processing had begun (inline, by an awaiting handler) before stop() returned
                if p[0] < st[2] and (p[1] is None or p[1] > a.enter_seq) and p[2].startswith('inline:'):
                    return 'F20'
        return 'unexplained'
    if prop == 'C14' and cl == 'parent_never_completes':
        c = why_incomplete(F, key[0])
        return '+'.join(sorted(c)) if c else 'unexplained'
    return 'unexplained'
