#!/venv/bin/python
"""replay.py <file>: re-run a replay file in this (fresh) interpreter.
exit 1 + VIOLATION line if the recorded violation class reproduces (digest reported),
exit 0 if it does not, exit 3 if it reproduces with a different trace digest."""
import json
import os
import sys

if os.environ.get('PYTHONHASHSEED') != '0':
    os.environ['PYTHONHASHSEED'] = '0'
    os.execv(sys.executable, [sys.executable] + sys.argv)
ROOT = os.path.dirname(os.path.dirname(os.path.abspath(__file__)))
sys.path.insert(0, ROOT)
from sim import props  # noqa: E402


def main():
    path = sys.argv[1]
    body = json.load(open(path))
    prop = body['property']
    r = props.run_one(prop, body['scenario'])
    if 'harness' in r:
        print('HARNESS-ERROR', r['harness'])
        return 2
    want = body['expect']
    hit = [v for v in r.get('viol', []) if v['clause'] == want['clause'] and v.get('cause') == want.get('cause')]
    for v in r.get('viol', []):
        print(' ', v['clause'], v.get('cause'), v.get('key'))
    if not hit:
        print(f'no violation of class {want} in replay (end={r.get("end")})')
        return 0
    print(f'VIOLATION property={prop} replay={path}')
    print(f'  clause={hit[0]["clause"]} cause={hit[0].get("cause")} key={hit[0].get("key")} digest={r.get("digest")}')
    if body.get('digest') and body['digest'] != r.get('digest'):
        print(f'  digest differs from recorded {body["digest"]}')
        return 3
    return 1


if __name__ == '__main__':
    sys.exit(main())
