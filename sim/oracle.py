"""Oracles over the recorded history of one bus-world run (properties C01-C11, C13-C16).

Every oracle takes Facts (indexes over the trace + final snapshot) and returns a list
of violation dicts {prop, clause, key, detail}.  `cause` is attached afterwards by
sim.diagnose.  Oracles only use the harness's own records and public bubus state.
"""
from __future__ import annotations

import collections

EPS = 1e-8
LATE = 5.0  # liveness bound in virtual seconds (generous multiple of the 0.1 s poll)
LATE_IDLE = 0.5  # wait_until_idle(): bound on the delay between the bus becoming idle and the return (5 polls)


from .facts import Act, Await, Facts  # noqa: F401
from . import diagnose as _dg


def V(prop, clause, key, **detail):
    return {'prop': prop, 'clause': f'{prop}.{clause}', 'key': key, 'detail': detail}


# ---------------------------------------------------------------------------------
def hang_violations(F: Facts, prop):
    """A cut run (hang / livelock / horizon) attributed to `prop` - who was waiting on what."""
    out = []
    if F.end == 'ok':
        return out
    if not str(F.end).startswith('cut:'):
        return out
    verdict = F.end.split(':', 1)[1]
    if verdict == 'HORIZON':
        # the virtual-time horizon (600 s) was reached while the workload was still producing trace records (silence
        # for 10 virtual seconds would have cut the run earlier): a long run, not a hang - inconclusive, counted under
        # run_endings in the evidence
        return out
    waiting = []
    for aw in F.awaits:
        if aw.e is None:
            waiting.append(('await', aw.actor, aw.ev))
    for x in F.idles:
        if x[2] is None:
            waiting.append(('wait_idle', x[6], x[0]))
    for x in F.stops:
        if x[2] is None:
            waiting.append(('stop', x[6], x[0]))
    out.append(V(prop, 'hang', tuple(waiting[:4]), verdict=verdict, waiting=waiting[:8]))
    return out


# --- C01 ---------------------------------------------------------------------------
def c01(F: Facts):
    out = []
    for (bus, ev), seq in F.accepted.items():
        must = set(F.matching_handlers(bus, ev, registered_before=seq))  # registered when the event was accepted
        for hi in F.matching_handlers(bus, ev):
            n = len(F.enters.get((bus, ev, hi), ()))
            if n > 1:
                out.append(V('C01', 'duplicate', (bus, ev, hi), n=n))
            elif n == 0 and hi in must and F.settled and not F.bus_stopped_before(bus):
                # a child whose processing was interrupted by its (grand)parent handler's timeout has its
                # remaining handlers cancelled by design (C10); everything else must have been delivered
                if _dg.aborted_any(F, bus, ev) and not _dg.aborted_unrelated(F, ev):
                    continue
                out.append(V('C01', 'missing', (bus, ev, hi)))
    for (bus, ev, hi), acts in F.enters.items():
        a0 = F.acts[acts[0]]
        s = F.accepted.get((bus, ev))
        if s is None or s > a0.enter_seq:
            out.append(V('C01', 'unaccepted', (bus, ev, hi)))
        h = F.handlers[hi]
        if h['bus'] != bus or h['pattern'] not in (F.etype.get(ev), '*'):
            out.append(V('C01', 'nonmatching', (bus, ev, hi)))
    if F.settled:
        evs = F.final.get('events', {})
        for (bus, ev, hi), acts in F.enters.items():
            e = evs.get(ev)
            if e is None:
                continue
            n = sum(1 for r in e['results'] if r['bus'] == bus and r['h'] and tuple(r['h'][:2]) == ('h', hi))
            if n != 1:
                out.append(V('C01', 'result_count', (bus, ev, hi), n=n))
    out += hang_violations(F, 'C01')
    return out


# --- C02 ---------------------------------------------------------------------------
def c02(F: Facts):
    out = []
    per_bus = collections.defaultdict(list)
    for (bus, ev), seq in F.accepted.items():
        per_bus[bus].append((seq, ev))
    for bus, lst in per_bus.items():
        lst.sort()
        begun = [(F.pe[(bus, ev)][0][0], i, ev) for i, (s, ev) in enumerate(lst) if F.pe.get((bus, ev))]
        # inversion: e2 (later enqueued) began before e1 (earlier enqueued)
        for pb2, i2, e2 in begun:
            for pb1, i1, e1 in begun:
                if i1 < i2 and pb2 < pb1:
                    aw = F.awaiting_at(pb2)
                    ok = False
                    for actor, x in aw.items():
                        if actor in F.acts and (e2 == x or e2 in F.desc(x)):
                            ok = True
                            break
                    if not ok:
                        out.append(V('C02', 'inversion', (bus, e1, e2), mode=F.pe[(bus, e2)][0][2]))
                    break  # report once per e2
    # serial bus: no second event started while a handler of another event on this bus is running un-suspended
    for a in F.acts.values():
        cfg = F.bus_cfg.get(a.bus, {})
        if cfg.get('parallel'):
            continue
        aw = None
        for y in F.acts.values():
            if y is a or y.bus != a.bus or y.ev == a.ev:
                continue
            if y.enter_seq < a.enter_seq and (y.exit_seq is None or y.exit_seq > a.enter_seq):
                if aw is None:
                    aw = F.awaiting_at(a.enter_seq)
                if y.id not in aw:
                    out.append(V('C02', 'serial_overlap', (a.bus, y.ev, a.ev), running=y.id, started=a.id))
    return out


# --- tree completeness helpers -------------------------------------------------------
def _tree_incomplete(F: Facts, root, at_seq):
    """Descendants of root that are not complete at at_seq: [(ev, why)]."""
    bad = []
    first_acc = F.first_accept
    for d in sorted(F.desc(root), key=lambda n: int(n[1:])):
        if first_acc.get(d, 1 << 60) > at_seq:
            continue  # dispatched only after the instant we judge
        s = F.sig.get(d)
        if s is None or s > at_seq:
            bad.append((d, 'not_signalled'))
            continue
        for a in F.acts.values():
            if a.ev == d and a.enter_seq < at_seq and (a.exit_seq is None or a.exit_seq > at_seq):
                bad.append((d, 'handler_running'))
                break
    return bad


def _tree_quiescent_time(F: Facts, root):
    """Latest instant of any activity in the tree of root (None if some activity never ended)."""
    tree = F.desc(root) | {root}
    t = 0.0
    for a in F.acts.values():
        if a.ev in tree:
            if a.t_exit is None:
                return None
            t = max(t, a.t_exit)
    for (bus, ev), lst in F.pe.items():
        if ev in tree:
            for x in lst:
                if x[5] is None:
                    return None
                t = max(t, x[5])
    for (bus, ev), s in F.accepted.items():
        if ev in tree and not F.pe.get((bus, ev)):
            return None
    return t


# --- C03 ---------------------------------------------------------------------------
def c03(F: Facts):
    out = []
    for aw in F.awaits:
        if aw.actor in F.acts:
            continue  # in-handler: C04
        if aw.e is None:
            continue  # open at the cut: reported by hang_violations
        if aw.outcome == 'cancelled':
            continue
        if aw.outcome != 'ret':
            out.append(V('C03', 'raised', (aw.actor, aw.ev), outcome=aw.outcome))
            continue
        if aw.same is not True:
            out.append(V('C03', 'not_same_object', (aw.actor, aw.ev)))
        if not (aw.status == 'completed' and aw.sig):
            out.append(V('C03', 'incomplete_at_return', (aw.actor, aw.ev), status=aw.status, sig=aw.sig))
        if any(st not in ('completed', 'error') for _, st in aw.results):
            out.append(V('C03', 'results_not_terminal', (aw.actor, aw.ev), results=aw.results))
        bad = _tree_incomplete(F, aw.ev, aw.e)
        if bad:
            out.append(V('C03', 'descendant_incomplete', (aw.actor, aw.ev, bad[0][0], bad[0][1]), bad=bad[:5]))
        tq = _tree_quiescent_time(F, aw.ev)
        if tq is not None and aw.te - max(tq, aw.tb) > LATE:
            out.append(V('C03', 'late_release', (aw.actor, aw.ev), quiescent_at=tq, released_at=aw.te))
    hv = hang_violations(F, 'C03')
    # only hangs in which an external awaiter is stuck belong to C03
    for v in hv:
        if any(w[0] == 'await' and w[1] not in F.acts for w in v['detail']['waiting']):
            out.append(v)
    return out


# --- C04 ---------------------------------------------------------------------------
def c04(F: Facts):
    out = []
    for aw in F.awaits:
        if aw.actor not in F.acts:
            continue
        if aw.e is None or aw.outcome == 'cancelled':
            continue
        if aw.outcome != 'ret':
            out.append(V('C04', 'raised', (aw.actor, aw.ev), outcome=aw.outcome))
            continue
        if not (aw.status == 'completed' and aw.sig):
            out.append(V('C04', 'child_incomplete_at_return', (aw.actor, aw.ev), status=aw.status, sig=aw.sig))
        elif any(st not in ('completed', 'error') for _, st in aw.results):
            out.append(V('C04', 'results_not_terminal', (aw.actor, aw.ev), results=aw.results))
        else:
            bad = _tree_incomplete(F, aw.ev, aw.e)
            if bad:
                out.append(V('C04', 'descendant_incomplete', (aw.actor, aw.ev, bad[0][0], bad[0][1]), bad=bad[:5]))
    hv = hang_violations(F, 'C04')
    for v in hv:
        if any(w[0] == 'await' and w[1] in F.acts for w in v['detail']['waiting']):
            out.append(v)
    # an in-handler await that ended only because the awaiting handler's own timeout fired, although
    # nothing in the child's tree was still running, is a deadlock resolved by the timeout
    for aw in F.awaits:
        if aw.actor in F.acts and aw.outcome == 'cancelled' and aw.e is not None:
            tq = _tree_quiescent_time(F, aw.ev)
            if tq is not None and aw.te - max(tq, aw.tb) > LATE and not aw.sig:
                out.append(V('C04', 'released_only_by_timeout', (aw.actor, aw.ev), quiescent_at=tq, cancelled_at=aw.te))
    return out


# --- C05 ---------------------------------------------------------------------------
def c05(F: Facts):
    out = []
    enters = sorted(F.acts.values(), key=lambda a: a.enter_seq)
    for aw in F.awaits:
        if aw.actor not in F.acts:
            continue
        s = F.sig.get(aw.ev)
        if s is not None and s < aw.b:
            continue  # already complete when the await began
        tree = F.desc(aw.ev) | {aw.ev}
        on_stopped_bus = any(e in tree and F.bus_stopped_before(b) for (b, e) in F.accepted)
        if aw.outcome == 'cancelled' or ((on_stopped_bus or F.stops or F.cancels) and aw.e is not None):
            # the awaiting handler was cancelled, or buses were stopped / cancelled in this run (events on a stopped
            # bus are never processed, dispatches to it are refused): the window ends where the await ended
            end = aw.e
        else:
            # the window runs from the start of the await to the child's completion - also when the await itself
            # returned earlier with the child still incomplete
            end = s if s is not None else F.last_seq + 1
        ok = F.desc(aw.ev) | {aw.ev}
        for a in enters:
            if aw.b < a.enter_seq < end and a.ev not in ok:
                after = aw.e is not None and a.enter_seq > aw.e
                out.append(V('C05', 'unrelated_in_window', (aw.actor, aw.ev, a.ev), act=a.id, bus=a.bus, after_await_returned=after))
                break
    return out


# --- C06 ---------------------------------------------------------------------------
def c06(F: Facts):
    out = []
    events = []
    for a in F.acts.values():
        events.append((a.enter_seq, 0, a))
        if a.exit_seq is not None:
            events.append((a.exit_seq, 1, a))
    for aw in F.awaits:
        if aw.actor in F.acts:
            events.append((aw.b, 2, aw))
            if aw.e is not None:
                events.append((aw.e, 3, aw))
    events.sort(key=lambda x: x[0])
    live = {}
    awaiting = collections.Counter()
    for seq, kind, obj in events:
        if kind == 0:
            x = obj
            xpar = F.bus_cfg.get(x.bus, {}).get('parallel', False)
            for y in live.values():
                if awaiting[y.id] > 0:
                    continue
                ypar = F.bus_cfg.get(y.bus, {}).get('parallel', False)
                if xpar and y.bus == x.bus and y.ev == x.ev:
                    continue
                if ypar and any(z.bus == y.bus and z.ev == y.ev and awaiting[z.id] > 0 for z in live.values() if z is not y):
                    continue
                out.append(V('C06', 'overlap', (x.bus, x.ev, y.bus, y.ev), started=x.id, running=y.id))
            live[x.id] = x
        elif kind == 1:
            live.pop(obj.id, None)
        elif kind == 2:
            awaiting[obj.actor] += 1
        elif kind == 3:
            awaiting[obj.actor] -= 1
    return out


# --- C07 ---------------------------------------------------------------------------
def forward_reach(F: Facts, ev):
    """Forwarding model: (expected bus set, entry buses in order)."""
    typ = F.etype.get(ev)
    edges = collections.defaultdict(list)
    for hi, h in enumerate(F.handlers):
        if h.get('kind') == 'forward' and h.get('pattern', '*') in ('*', typ) and hi in F.registered_at:
            edges[h['bus']].append(h['to'])
    entries = []
    for seq, t, actor, bus, e, outcome, hl in F.disps:
        if e == ev and outcome == 'ok' and not actor.startswith('fwd:') and bus not in entries:
            entries.append(bus)
    reach = set()
    stack = list(entries)
    while stack:
        b = stack.pop()
        if b in reach:
            continue
        reach.add(b)
        stack.extend(edges.get(b, ()))
    return reach, entries


def c07(F: Facts):
    out = []
    evs = F.final.get('events', {})
    has_fwd = any(h.get('kind') == 'forward' for h in F.handlers)
    if not has_fwd:
        return out
    for ev in sorted(F.accepted_events, key=lambda n: int(n[1:])):
        reach, entries = forward_reach(F, ev)
        if any(F.bus_stopped_before(b) for b in reach):
            continue
        # rejected forwards make the model inapplicable for this event
        if any(e == ev for (_, _, _, e, _) in F.rejected):
            continue
        got = {bus for (bus, e) in F.pe if e == ev}
        if F.settled:
            if got != reach:
                out.append(V('C07', 'reach_set', (ev,), expected=sorted(reach), got=sorted(got)))
            for bus in got & reach:
                must = set(F.matching_handlers(bus, ev, registered_before=F.accepted.get((bus, ev))))
                for hi in F.matching_handlers(bus, ev):
                    n = len(F.enters.get((bus, ev, hi), ()))
                    if (n > 1 or (n == 0 and hi in must)) and not any(p[3] for p in F.pe[(bus, ev)]):
                        out.append(V('C07', 'handler_count', (ev, bus, hi), n=n))
        else:
            extra = got - reach
            if extra:
                out.append(V('C07', 'reach_set', (ev,), expected=sorted(reach), got=sorted(got)))
            for bus in got:
                for hi in F.matching_handlers(bus, ev):
                    n = len(F.enters.get((bus, ev, hi), ()))
                    if n > 1:
                        out.append(V('C07', 'handler_count', (ev, bus, hi), n=n))
        e = evs.get(ev)
        if e is not None and F.settled:
            order = []
            for seq, t, actor, bus, e2, outcome, hl in F.disps:
                if e2 == ev and outcome == 'ok' and bus not in order:
                    order.append(bus)
            if list(e['path']) != order:
                out.append(V('C07', 'path', (ev,), expected=order, got=list(e['path'])))
            if len(set(e['path'])) != len(e['path']):
                out.append(V('C07', 'path_duplicate', (ev,), got=list(e['path'])))
    for r in F.recs:
        if r[2] == 'enter' and len(r) > 7 and r[7] is False:
            out.append(V('C07', 'not_same_object', (r[4], r[3])))
    # loop prevention: a bus never forwards an event to a bus that was already in the event's path when this bus
    # started to process it
    for seq, t, actor, dst, ev, outcome, hl in F.disps:
        if not actor.startswith('fwd:'):
            continue
        src = actor.split(':', 1)[1]
        win = [p for p in F.pe.get((src, ev), ()) if p[0] < seq and (p[1] is None or p[1] > seq)]
        if not win:
            continue
        pb = max(p[0] for p in win)
        path_then = {b for (s2, t2, a2, b, e2, oc, hl2) in F.disps if e2 == ev and oc == 'ok' and s2 < pb}
        if dst in path_then:
            out.append(V('C07', 'forwarded_to_bus_in_path', (ev, src, dst), seq=seq))
    out += hang_violations(F, 'C07')
    return out


# --- C08 ---------------------------------------------------------------------------
def c08(F: Facts):
    out = []
    observed = {}
    for r in F.recs:
        if r[2] == 'observed_complete':
            observed[r[3]] = r[0]
        elif r[2] == 'changed_after_complete':
            ev, what = r[3], r[4]
            obs = observed.get(ev, 0)
            # results added by a bus the program dispatched the already-complete event to afterwards are the
            # program's doing, not an instability of completion.  "Already complete" = its completion had been
            # signalled (the library only signals when no accepting bus is outstanding, so any later acceptance is an
            # explicit re-dispatch of a complete event).
            done = min(obs, F.sig.get(ev, obs))
            user_later = set()
            for seq, t, actor, bus, e, outcome, hl in F.disps:
                if e == ev and outcome == 'ok' and seq > done and not actor.startswith('fwd:'):
                    user_later.add(bus)
                    # ... and everything that bus forwards it to afterwards
            if user_later:
                reach = set(user_later)
                for seq, t, actor, bus, e, outcome, hl in F.disps:
                    if e == ev and outcome == 'ok' and seq > done and actor.startswith('fwd:') and actor.split(':', 1)[1] in reach:
                        reach.add(bus)
                what2 = tuple(x for x in what if not (x.startswith('result_') and x.split(':', 1)[-1] in reach))
                if not [x for x in what2 if x.startswith('result_') or x == 'signal_cleared']:
                    continue
                what = what2
            out.append(V('C08', 'changed_after_complete', (ev,) + tuple(what[:3]), what=what, observed_at=obs, seq=r[0]))
    return out


# --- C09 ---------------------------------------------------------------------------
def c09(F: Facts):
    out = []
    evs = F.final.get('events', {})
    # where does each event appear as a child?
    appears = collections.defaultdict(list)
    for pn, pe_ in evs.items():
        for r in pe_['results']:
            for c in r['children']:
                appears[c].append((pn, r['bus'], tuple(r['h']) if r['h'] else None))
    for ev in sorted(F.accepted_events, key=lambda n: int(n[1:])):
        e = evs.get(ev)
        if e is None:
            continue
        # lineage is fixed at the first accepted dispatch; a rejected first attempt is C14's subject
        actor = F.creator.get(ev)
        first = next((d for d in F.disps if d[4] == ev), None)
        if first is None or first[5] != 'ok':
            continue
        a = F.acts.get(actor)
        exp_parent = F.explicit_parent.get(ev)
        if e['parent'] == ev:
            out.append(V('C09', 'own_parent', (ev,)))
        if any(p == ev for p, _, _ in appears.get(ev, ())):
            out.append(V('C09', 'own_child', (ev,)))
        if a is not None:
            want = exp_parent or a.ev
            if e['parent'] != want:
                out.append(V('C09', 'wrong_parent', (ev,), expected=want, got=e['parent']))
            where = [x for x in appears.get(ev, ()) if x[0] != ev]
            good = (a.ev, a.bus, ('h', a.hi))
            # the activation's result may have been created by a different bubus handler slot only if wrong
            if where.count(good) != 1 or len(where) != 1:
                out.append(V('C09', 'children_attribution', (ev,), expected=good, got=where[:4]))
        else:
            if e['parent'] != exp_parent:
                out.append(V('C09', 'root_has_parent', (ev,), got=e['parent'], expected=exp_parent))
            where = [x for x in appears.get(ev, ()) if x[0] != ev]
            if where:
                out.append(V('C09', 'root_is_child', (ev,), got=where[:4]))
    for seq, act, want, got in F.ebus:
        if got != want:
            out.append(V('C09', 'event_bus', (act, want, got)))
    return out


# --- C10 ---------------------------------------------------------------------------
def c10(F: Facts):
    out = []
    evs = F.final.get('events', {})
    stall_slack = sum(x[1] for x in F.sc.get('faults', {}).get('stalls', [])) + F.burn_total
    # per activation deadline
    cancelled_at = collections.defaultdict(list)  # t -> acts cancelled at deadline
    info = {}
    for a in F.acts.values():
        h = F.handlers[a.hi]
        if h.get('kind', 'async') not in ('async', 'amethod', 'aclassmethod'):
            continue
        T = F.timeouts.get(a.ev)
        if T is None:
            continue
        deadline = a.t_enter + T
        info[a.id] = deadline
    for a in F.acts.values():
        deadline = info.get(a.id)
        if deadline is None:
            continue
        t_exit = a.t_exit if a.t_exit is not None else F.last_t
        if t_exit > deadline + stall_slack + EPS:
            if F.end != 'ok' and a.t_exit is None and not F.settled and F.last_t <= deadline + stall_slack + EPS:
                continue
            out.append(V('C10', 'not_cancelled_at_deadline', (a.bus, a.ev, a.hi), deadline=deadline, exit=a.t_exit, how=a.how))
        overran = (a.how == 'cancelled' and a.t_exit is not None and a.t_exit >= deadline - EPS)
        if overran:
            e = evs.get(a.ev)
            r = None
            if e:
                for rr in e['results']:
                    if rr['bus'] == a.bus and rr['h'] and tuple(rr['h'][:2]) == ('h', a.hi):
                        r = rr
            tie = abs(a.t_exit - deadline) <= EPS  # ended exactly at the deadline: may end either way
            if not tie:
                # several deadlines expired during one loop stall: an enclosing handler whose own deadline had also
                # passed may be cancelled first in that iteration and take this one down with it
                for b in F.acts.values():
                    db = info.get(b.id)
                    if b is not a and db is not None and b.how == 'cancelled' and b.enter_seq < a.enter_seq \
                            and b.t_exit is not None and abs(b.t_exit - a.t_exit) <= EPS and db <= a.t_exit + EPS:
                        tie = True
                        break
            if r is None or r['status'] != 'error' or (r['err'] != 'TimeoutError' and not (tie and r['err'] == 'CancelledError')):
                if True:
                    out.append(V('C10', 'timeout_result', (a.bus, a.ev, a.hi), result=(r['status'], r['err']) if r else None))
    # cancelled before own deadline: must be explained by an enclosing activation timing out at that instant
    for a in F.acts.values():
        deadline = info.get(a.id)
        if a.how == 'cancelled' and deadline is not None and a.t_exit < deadline - EPS:
            explained = False
            for b in F.acts.values():
                db = info.get(b.id)
                if b is not a and db is not None and b.how == 'cancelled' and b.t_exit is not None \
                        and abs(b.t_exit - a.t_exit) <= stall_slack + EPS and b.t_exit >= db - EPS:
                    explained = True
                    break
            if not explained and not F.cancels and not F.stops:
                out.append(V('C10', 'spurious_cancel', (a.bus, a.ev, a.hi), at=a.t_exit, deadline=deadline))
    # everything reaches completion; no result is left non-terminal
    for ev in sorted(F.accepted_events, key=lambda n: int(n[1:])):
        e = evs.get(ev)
        if e is None:
            continue
        if any(F.bus_stopped_before(b) for (b, x) in F.accepted if x == ev):
            continue
        bad = [(r['bus'], r['status']) for r in e['results'] if r['status'] not in ('completed', 'error')]
        if bad:
            out.append(V('C10', 'result_left_nonterminal', (ev,), results=bad[:4]))
        elif not (e['sig'] and e['status'] == 'completed'):
            out.append(V('C10', 'event_incomplete', (ev,), status=e['status'], sig=e['sig']))
    out += hang_violations(F, 'C10')
    return out


# --- C11 ---------------------------------------------------------------------------
def c11(F: Facts, raised_acts):
    """raised_acts: {act: 'raise'|'return_exc'} from the harness (w.raised keys + exit records)."""
    out = []
    evs = F.final.get('events', {})
    for act, kind in raised_acts.items():
        a = F.acts.get(act)
        if a is None:
            continue
        e = evs.get(a.ev)
        r = None
        if e:
            for rr in e['results']:
                if rr['bus'] == a.bus and rr['h'] and tuple(rr['h'][:2]) == ('h', a.hi):
                    r = rr
        if r is None:
            out.append(V('C11', 'no_result', (a.bus, a.ev, a.hi)))
        elif r['status'] != 'error':
            out.append(V('C11', 'not_error', (a.bus, a.ev, a.hi), status=r['status']))
        elif r['err_ident'] != act:
            out.append(V('C11', 'not_same_exception', (a.bus, a.ev, a.hi), got=r['err'], ident=r['err_ident']))
        if e and F.settled and not (e['sig'] and e['status'] == 'completed'):
            out.append(V('C11', 'event_incomplete', (a.ev,), status=e['status']))
    for aw in F.awaits:
        if aw.e is not None and aw.outcome.startswith('exc:'):
            out.append(V('C11', 'await_raised', (aw.actor, aw.ev), outcome=aw.outcome))
    # "the event completes": a run in which some handler raised and which then hangs
    if raised_acts:
        out += hang_violations(F, 'C11')
    # accessors
    for r in F.results_ops:
        _, _, _, actor, ev, accessor, flag, outcome, extra, errs, errs_after = r
        if flag:
            if errs and not outcome.startswith('exc:'):
                out.append(V('C11', 'accessor_did_not_raise', (ev, accessor), errors=errs))
            if errs and outcome.startswith('exc:') and extra != errs[0]:
                out.append(V('C11', 'accessor_wrong_exception', (ev, accessor), got=extra, expected=errs[0]))
            if not errs and outcome.startswith('exc:') and extra not in errs_after:
                out.append(V('C11', 'accessor_raised_without_error', (ev, accessor), outcome=outcome))
        else:
            if outcome.startswith('exc:'):
                out.append(V('C11', 'accessor_raised', (ev, accessor), outcome=outcome))
    return out


# --- C13 ---------------------------------------------------------------------------
def c13(F: Facts):
    out = []
    for seq, t, actor, bus, ev, outcome, hl in F.disps:
        N = F.bus_cfg.get(bus, {}).get('max_history', 50)
        if N and hl > N:
            out.append(V('C13', 'bound_after_dispatch', (bus,), len=hl, N=N, seq=seq))
            break
    for r in F.recs:
        if r[2] == 'pe_end':
            N = F.bus_cfg.get(r[3], {}).get('max_history', 50)
            if N and r[5] > N:
                out.append(V('C13', 'bound_after_processing', (r[3],), len=r[5], N=N, seq=r[0]))
                break
    order = {'completed': 0, 'started': 1, 'pending': 2}
    for seq, bus, before, victims, N in F.evicts:
        need = len(before) - N
        ranked = sorted(before, key=lambda x: (order.get(x[1], 0), int(x[0][1:]) if x[0][1:].isdigit() else 0))
        expect = {x[0] for x in ranked[:need]}
        if set(victims) != expect:
            st = dict(before)
            out.append(V('C13', 'eviction_order', (bus,), victims=[(v, st.get(v)) for v in victims],
                         expected=[(v, st.get(v)) for v in sorted(expect)], seq=seq))
    return out


# --- C14 ---------------------------------------------------------------------------
def c14(F: Facts):
    out = []
    evs = F.final.get('events', {})
    buses = F.final.get('buses', {})
    appears = collections.defaultdict(list)
    for pn, pe_ in evs.items():
        for r in pe_['results']:
            for c in r['children']:
                appears[c].append(pn)
    for seq, actor, bus, ev, outcome in F.rejected:
        if outcome not in ('REJ:RuntimeError', 'REJ:QueueFull'):
            out.append(V('C14', 'odd_rejection', (bus, ev), outcome=outcome))
        if (bus, ev) not in F.accepted and ev in buses.get(bus, {}).get('history', ()):
            out.append(V('C14', 'rejected_in_history', (bus, ev)))
        if ev not in F.accepted_events:
            if appears.get(ev):
                out.append(V('C14', 'rejected_is_child', (ev,), parents=appears[ev][:3]))
            a = F.acts.get(actor)
            if a is not None and (F.settled or F.end != 'ok'):
                p = evs.get(a.ev)
                if p is not None and not (p['sig'] and p['status'] == 'completed') and a.exit_seq is not None:
                    out.append(V('C14', 'parent_never_completes', (a.ev, ev)))
    out += [v for v in c01(F) if v['clause'] in ('C01.missing', 'C01.duplicate')]
    for v in out:
        if v['prop'] == 'C01':
            v['prop'] = 'C14'
            v['clause'] = 'C14.accepted_' + v['clause'].split('.')[1]
    out += hang_violations(F, 'C14')
    return out


# --- C15 ---------------------------------------------------------------------------
def c15(F: Facts):
    out = []
    for x in F.idles:
        bus, b, e, tb, te, timeout, actor, outcome, state = x
        if e is None or outcome != 'ret' or timeout is not None:
            continue
        if F.bus_stopped_before(bus, e):
            continue
        if state[0] or state[1] or state[2]:
            out.append(V('C15', 'not_idle_at_return', (bus, actor), state=state))
        for (bb, ev), s in F.accepted.items():
            if bb == bus and s < b:
                if not F.processed(bus, ev, before=e):
                    began = any(p[0] < e for p in F.pe.get((bus, ev), ()))
                    out.append(V('C15', 'accepted_unprocessed_at_return', (bus, actor, ev), began=began))
                    break
                if any(a.bus == bus and a.ev == ev and a.enter_seq < e and (a.exit_seq is None or a.exit_seq > e) for a in F.acts.values()):
                    out.append(V('C15', 'handler_running_at_return', (bus, actor, ev)))
                    break
        # liveness: last activity on that bus before the return
        # (premise: the bus *is* idle at the return.  An event it accepted - e.g. forwarded to it while the call was
        # already waiting - that its run loop has taken off the queue but cannot start behind the global lock shows up
        # neither as queued nor as pending or started, yet the bus still owes its processing: no lateness claim then)
        if any(bb == bus and s < e and not F.processed(bus, ev, before=e) for (bb, ev), s in F.accepted.items()):
            continue
        tq = tb
        for seq, t, a_, bb, ev, oc, hl in F.disps:
            if bb == bus and oc == 'ok' and seq < e:
                tq = max(tq, t)
        mine = {ev for (bb, ev), s in F.accepted.items() if bb == bus and s < e}
        for (bb, ev), lst in F.pe.items():
            # the bus counts an event of its history as started until every bus that accepted it is done with it
            # (status is derived from all results of the event), so activity on those buses counts too
            if bb == bus or ev in mine:
                for p in lst:
                    if p[1] is not None and p[1] < e:
                        tq = max(tq, p[5])
        # the call polls: the run loop raises the idle flag at most one 0.1 s poll after the last activity, the caller
        # needs a few more callbacks; loop stalls and CPU-hogging handlers (injected) delay everybody by their length
        slack = F.burn_total + sum(x[1] for x in (F.sc.get('faults', {}).get('stalls') or ()))
        if te - tq > LATE_IDLE + slack:
            out.append(V('C15', 'late_return', (bus, actor), idle_since=tq, returned=te, slack=slack))
    hv = hang_violations(F, 'C15')
    for v in hv:
        owed = [w for w in v['detail']['waiting'] if w[0] == 'wait_idle' and not _lost_in_flight_by_cancel(F, w[2])
                and not _cancelled_under_the_call(F, w[1], w[2])]
        if owed:
            out.append(v)
    return out


def _cancelled_under_the_call(F: Facts, actor, bus):
    """The bus's run-loop task was cancelled from outside (injected fault) while this wait_until_idle() was already in
    progress.  The statement promises a return whatever happened to earlier *events*; it does not cover the bus's own
    task being taken away under a call in progress (a call made afterwards revives the run loop and is owed a return)."""
    for x in F.idles:
        if x[0] == bus and x[6] == actor and x[2] is None:
            for seq, t, target, by in F.cancels:
                if target != 'runloop:' + bus:
                    continue
                # in progress when the cancellation was requested, or begun while the cancelled task was still unwinding
                gone = min((s for s, b in F.runloop_exits if b == bus and s > seq), default=F.last_seq)
                if seq > x[1] or gone > x[1]:
                    return True
    return False


def _lost_in_flight_by_cancel(F: Facts, bus):
    """The bus's run-loop task was cancelled from outside (injected fault) while it held an event it had taken off the
    queue and not started: that event is gone with the task (C16: cancellation terminates the task), the bus never
    becomes idle again, so a wait_until_idle() is not owed a return."""
    for seq, t, target, by in F.cancels:
        if target != 'runloop:' + bus:
            continue
        # (the cancelled task takes a few callbacks to unwind: what its getter received meanwhile is lost as well)
        gone = min((s for s, b in F.runloop_exits if b == bus and s > seq), default=F.last_seq)
        for (bb, ev), lst in F.deq.items():
            if bb != bus:
                continue
            for dseq, mode in lst:
                if mode == 'runloop' and dseq < gone and not any(p[0] > dseq for p in F.pe.get((bb, ev), ())):
                    return True
    return False


# --- C16 ---------------------------------------------------------------------------
def c16(F: Facts):
    out = []
    for x in F.stops:
        bus, b, e, tb, te, timeout, actor, outcome, was_running = x
        if e is None:
            if F.end == 'ok' or F.end == 'cancelled_all':
                out.append(V('C16', 'stop_never_returned', (bus, actor)))
            continue  # in a cut run the open stop() is reported by the hang clause
        if outcome != 'ret':
            if outcome != 'cancelled':
                out.append(V('C16', 'stop_raised', (bus, actor), outcome=outcome))
            continue
        if te - tb > (timeout or 0.0) + 1.0 + EPS:
            out.append(V('C16', 'stop_slow', (bus, actor), took=te - tb, timeout=timeout))
        # restarts: a later accepted dispatch / wait_until_idle on the bus restarts it by design
        restart = F.restart_after_stop(bus, b)
        for a in F.acts.values():
            if a.bus == bus and a.enter_seq > e and (restart is None or a.enter_seq < restart):
                out.append(V('C16', 'handler_after_stop', (bus, a.ev, a.hi), act=a.id))
                break
    for bn, done in F.final.get('cancelled_runloops', []) or []:
        if not done:
            out.append(V('C16', 'cancelled_runloop_not_done', (bn,)))
    for name, done in F.final.get('cancel_all_tasks', []) or []:
        if not done:
            out.append(V('C16', 'task_survives_cancel', (name,)))
    hv = hang_violations(F, 'C16')
    for v in hv:
        if any(w[0] == 'stop' for w in v['detail']['waiting']) or F.final.get('cancel_all_tasks') is not None:
            out.append(v)
    return out


# --- C17 ---------------------------------------------------------------------------
def c17(F: Facts, w):
    """WAL: one faithful line per processed event; failing I/O is reported and contained."""
    import json as _json
    from pydantic import TypeAdapter
    from typing import Any
    from bubus import BaseEvent
    from .world import decode_payload
    out = []
    res = F.res
    ops = res.get('io_ops', [])
    texts = res.get('io_texts', [])
    wal_buses = [b['name'] for b in F.sc['buses'] if b.get('wal')]
    id2name = {f'00000000-0000-7000-8000-{int(n[1:]):012d}': n for n in F.etype}
    io_recs = [r for r in F.recs if r[2] == 'io']
    fired = [op for op in ops if op[3]]
    anyadapter = TypeAdapter(Any)

    def _unserialisable(x):
        if isinstance(x, dict):
            return set(x) in ({'$bytes'}, {'$object'}) or any(_unserialisable(v) for v in x.values())
        if isinstance(x, list):
            return any(_unserialisable(v) for v in x)
        return False

    unser = {n for n, pl in w.payloads.items() if _unserialisable(pl[0]) or any(_unserialisable(v) for v in pl[1].values())}
    n_unser_attempts = 0
    for bus in wal_buses:
        n_unser_attempts += sum(1 for (b, ev), lst in F.pe.items() if b == bus and ev in unser for p in lst if p[1] is not None and not p[3])
    for bus in wal_buses:
        path = f'/wal/{bus}.jsonl'
        # completed processings of this bus, in completion order
        P = sorted((p[1], ev) for (b, ev), lst in F.pe.items() if b == bus for p in lst if p[1] is not None and not p[3])
        attempts = [r for r in io_recs if r[3] == 'mkdir' and r[4] == '/wal']
        # an attempt belongs to the bus whose processing window contains it: count per bus through opens
        opens = [r for r in io_recs if r[3] == 'open' and r[4] == path]
        writes = [r for r in io_recs if r[3] == 'write' and r[4] == path and r[5] not in ('write_error', 'write_error_value')]  # those that reached the file
        my_texts = [t for t in texts if t[0] == path]
        full = [t for t in my_texts if t[2] == 'full']
        n_faults_here = sum(1 for r in io_recs if r[5] and (r[4] == path))
        P_ser = [(s_, ev) for (s_, ev) in P if ev not in unser]
        if not fired:
            if len(full) != len(P_ser):
                out.append(V('C17', 'line_count', (bus,), lines=len(full), processed=len(P_ser)))
        # every complete line: self-contained JSON object that validates back to the same event
        line_events = []
        for (_, text, kind), wr in zip(my_texts, writes):
            if kind != 'full':
                line_events.append(None)
                continue
            if not text.endswith('\n') or '\n' in text[:-1]:
                out.append(V('C17', 'not_one_line', (bus,), text=text[:60]))
                line_events.append(None)
                continue
            try:
                d = _json.loads(text)
                ev = BaseEvent.model_validate_json(text)
            except Exception as e:
                out.append(V('C17', 'line_invalid', (bus,), err=type(e).__name__, text=text[:80]))
                line_events.append(None)
                continue
            name = id2name.get(d.get('event_id'))
            line_events.append(name)
            if name is None or not isinstance(d, dict):
                out.append(V('C17', 'line_unknown_event', (bus,), text=text[:80]))
                continue
            fin = F.final['events'].get(name, {})
            if d.get('event_type') != F.etype[name] or ev.event_type != F.etype[name] or ev.event_id != d['event_id']:
                out.append(V('C17', 'line_wrong_type_or_id', (bus, name)))
            par = fin.get('parent')
            want_par = f'00000000-0000-7000-8000-{int(par[1:]):012d}' if par and par.startswith('e') and par[1:].isdigit() else par
            if d.get('event_parent_id') != want_par or ev.event_parent_id != want_par:
                out.append(V('C17', 'line_wrong_parent', (bus, name), got=d.get('event_parent_id'), want=want_par))
            # path at the time of the write = buses that had accepted the event by then
            # (the line is serialised right before the attempt's mkdir, i.e. before any simulated I/O latency)
            ser = max([r[0] for r in F.recs if r[2] == 'wal_begin' and r[3] == bus and r[4] == name and r[0] < wr[0]]
                      or [r[0] for r in io_recs if r[3] == 'mkdir' and r[0] < wr[0]] or [wr[0]])
            pth = []
            for seq, t, actor, b2, e2, oc, hl in F.disps:
                if e2 == name and oc == 'ok' and seq < ser and b2 not in pth:
                    pth.append(b2)
            if d.get('event_path') != pth or list(ev.event_path) != pth:
                out.append(V('C17', 'line_wrong_path', (bus, name), got=d.get('event_path'), want=pth))
            if 'event_results' in d:
                out.append(V('C17', 'line_contains_results', (bus, name)))
            pl = w.payloads.get(name)
            if pl is not None:
                want = _json.loads(anyadapter.dump_json(decode_payload(pl[0])))
                if d.get('payload') != want:
                    out.append(V('C17', 'line_wrong_payload', (bus, name), got=str(d.get('payload'))[:60], want=str(want)[:60]))
                for k, v in pl[1].items():
                    wantv = _json.loads(anyadapter.dump_json(decode_payload(v)))
                    if d.get(k) != wantv:
                        out.append(V('C17', 'line_wrong_extra_field', (bus, name, k)))
        # order and placement: the i-th line is for the i-th completed processing, written after that
        # processing's handlers finished and before the processing ended
        good = [(n, wr) for n, wr in zip(line_events, writes) if n is not None]
        if not fired:
            if [n for n, _ in good] != [ev for _, ev in P_ser]:
                out.append(V('C17', 'line_order', (bus,), lines=[n for n, _ in good][:8], processed=[ev for _, ev in P_ser][:8]))
        for n, wr in good:
            win = [p for p in F.pe.get((bus, n), ()) if p[0] < wr[0] and (p[1] is None or p[1] > wr[0])]
            if not win:
                out.append(V('C17', 'write_outside_processing', (bus, n), seq=wr[0]))
                continue
            for a in F.acts.values():
                if a.bus == bus and a.ev == n and a.enter_seq > win[0][0] and (a.exit_seq is None or a.exit_seq > wr[0]) and a.enter_seq < (win[0][1] or 1 << 60):
                    out.append(V('C17', 'written_before_handlers_finished', (bus, n), act=a.id))
                    break
    # faults: each is reported once, and never affects processing
    nerr = sum(1 for m in res.get('errlog', []) if 'Failed to save event' in m)
    # one report per failed WAL attempt (an attempt = mkdir, open, write, close; a failing write and the close
    # that follows it belong to the same attempt)
    failed_attempts = 0
    cur_failed = False
    for op in ops:
        if op[1] == 'mkdir':
            failed_attempts += 1 if cur_failed else 0
            cur_failed = False
        if op[3]:
            cur_failed = True
    failed_attempts += 1 if cur_failed else 0
    failed_attempts += n_unser_attempts  # serialising the line fails before any I/O is attempted
    if failed_attempts != nerr:
        out.append(V('C17', 'fault_not_reported', (failed_attempts, nerr), fired=[(o[1], o[3]) for o in fired][:5]))
    if fired or True:
        for v in c01(F):
            if v['clause'] in ('C01.missing', 'C01.duplicate', 'C01.hang'):
                out.append(v)
        if F.settled:
            for n, e in F.final.get('events', {}).items():
                if n in F.accepted_events and not (e['sig'] and e['status'] == 'completed'):
                    out.append(V('C17', 'event_incomplete', (n,), status=e['status']))
    return out


# --- C18 ---------------------------------------------------------------------------
def _filter_eval(spec, v):
    """None if the filter raises for v."""
    if spec is None:
        return True
    k = spec[0]
    if k == 'mod':
        return v % spec[1] == spec[2]
    if k == 'ge':
        return v >= spec[1]
    if k == 'eq':
        return v == spec[1]
    if k == 'true':
        return True
    if k == 'false':
        return False
    if k == 'raise':
        return None if v >= spec[1] else False
    raise AssertionError(spec)


def c18(F: Facts, w):
    import json as _json
    out = []
    vals = {n: ev_v for n, ev_v in getattr(w, 'values', {}).items()}
    begins = {}
    for r in F.expects:
        if r[2] == 'expect_begin':
            begins[r[5]] = r
    ended = set()
    stall_slack = sum(x[1] for x in F.sc.get('faults', {}).get('stalls', []))
    for r in F.expects:
        if r[2] != 'expect_end':
            continue
        seq_e, te, _, actor, bus, xid, outcome, got, n0, n1 = r
        b = begins[xid]
        ended.add(xid)
        seq_b, tb, typ, filt, timeout = b[0], b[1], b[6], _json.loads(b[7]), b[8]

        def matches(ev):
            if F.etype.get(ev) != typ or ev not in vals:
                return False
            v = vals[ev]
            inc, pred, exc = _filter_eval(filt.get('inc'), v), _filter_eval(filt.get('pred'), v), None
            if inc is None or inc is False:
                return False  # include raised / rejected (and short-circuits the deprecated predicate)
            if pred is None or pred is False:
                return False
            if filt.get('exc') is not None:
                exc = _filter_eval(filt['exc'], v)
                if exc is None or exc is True:
                    return False
            return True

        # matching events whose processing on this bus began while the call was pending
        cands = []
        for (bb, ev), lst in F.pe.items():
            if bb != bus or not matches(ev):
                continue
            for p in lst:
                if p[0] > seq_b and p[0] < seq_e:
                    cands.append((p[0], p[1], ev))
        cands.sort()
        if outcome == 'ret':
            if got is None or got == '?':
                out.append(V('C18', 'returned_unknown', (xid,)))
                continue
            if not matches(got):
                out.append(V('C18', 'returned_non_matching', (xid, got), type=F.etype.get(got), v=vals.get(got), filt=filt))
                continue
            mine = [c for c in cands if c[2] == got]
            if not mine:
                out.append(V('C18', 'returned_event_not_processed_in_window', (xid, got)))
                continue
            first_begin = mine[0][0]
            earlier = [c for c in cands if c[2] != got and c[1] is not None and c[1] < first_begin]
            if earlier:
                out.append(V('C18', 'not_first_match', (xid, got, earlier[0][2])))
            if timeout is not None and te - tb > timeout + stall_slack + EPS:
                out.append(V('C18', 'returned_after_deadline', (xid,), took=te - tb, timeout=timeout))
        elif outcome == 'exc:TimeoutError':
            if timeout is None:
                out.append(V('C18', 'timeout_without_timeout', (xid,)))
                continue
            if abs((te - tb) - timeout) > stall_slack + EPS:
                out.append(V('C18', 'timeout_at_wrong_time', (xid,), took=te - tb, timeout=timeout))
            done = [c for c in cands if c[1] is not None and c[1] < seq_e and F.recs[0][0] <= c[1]]
            # a match fully processed strictly before the deadline instant must have resolved the call
            early = [c for c in done if _t_of(F, c[1]) < tb + timeout - EPS]
            if early:
                out.append(V('C18', 'timeout_despite_match', (xid, early[0][2])))
        elif outcome == 'cancelled':
            pass
        else:
            out.append(V('C18', 'unexpected_outcome', (xid, outcome)))
    # registry restored: once every expect call has ended the bus has exactly its original handlers
    open_calls = [x for x in begins if x not in ended]
    if not open_calls and F.end in ('ok',):
        for bn, b in F.final.get('buses', {}).items():
            want = sum(1 for h in F.handlers if h['bus'] == bn)
            if b['nhandlers'] != want:
                out.append(V('C18', 'subscription_leaked', (bn,), handlers=b['nhandlers'], expected=want))
    for v in c01(F):
        if v['clause'] in ('C01.missing', 'C01.duplicate'):
            out.append(v)
    hv = hang_violations(F, 'C18')
    out += hv
    return out


def _t_of(F, seq):
    # time of record number seq (records are dense and ordered)
    lo, hi = 0, len(F.recs) - 1
    while lo < hi:
        mid = (lo + hi) // 2
        if F.recs[mid][0] < seq:
            lo = mid + 1
        else:
            hi = mid
    return F.recs[lo][1]
