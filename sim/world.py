"""Bus world: interprets one scenario (JSON) against the real bubus code on a SimLoop.

A run is a pure function of (scenario, /repo code).  The only output is the trace
(list of records with a global sequence number and the virtual time) plus a final
snapshot of public state.  See DESIGN.md sections 3 and 4.
"""
from __future__ import annotations

import asyncio
import hashlib
import json
import re
from typing import Any

from . import seams
from .loop import SimLoop, SimStop, teardown

import bubus.service as svc
from bubus import BaseEvent, EventBus


class Ev(BaseEvent):
    k: int = 0
    depth: int = 0
    v: int = 0
    payload: Any = None


EVT: dict[str, type] = {}
for _i in range(6):
    EVT[f'E{_i}'] = type(f'E{_i}', (Ev,), {'__module__': __name__})


class Boom(Exception):
    pass


def _loop_closed(msg):
    return RuntimeError('Event loop is closed')  # a text the run loop itself looks for


def _chained(msg):
    """an exception with a __cause__ and a __context__ (raise X from Y inside an except block)"""
    try:
        try:
            raise KeyError('inner cause')
        except KeyError as inner:
            raise Boom(msg) from inner
    except Boom as e:
        return e


EXC = {'Chained': _chained, 'ValueError': ValueError, 'KeyError': KeyError, 'RuntimeError': RuntimeError, 'Boom': Boom,
       'TimeoutError': TimeoutError, 'OSError': OSError,
       # exception types the library uses for its own control flow: raised by a handler they are just handler errors
       'QueueShutDown': svc.QueueShutDown, 'QueueFull': asyncio.QueueFull, 'LoopClosed': _loop_closed}


def _san(e, n=60):
    """exception text with every id()/uuid-derived digit erased (must not reach the trace)"""
    return re.sub(r'[0-9a-f]{4,}|\d+', 'N', str(e))[:n]


def decode_payload(x):
    """scenario JSON -> python value ({"$dt": iso} -> datetime)"""
    import datetime as _dt
    if isinstance(x, dict):
        if set(x) == {'$dt'}:
            return _dt.datetime.fromisoformat(x['$dt'])
        if set(x) == {'$bytes'}:
            return bytes.fromhex(x['$bytes'])  # e.g. 'fffe': not valid UTF-8 -> cannot be serialised to JSON
        if set(x) == {'$object'}:
            return object()  # unknown type -> cannot be serialised to JSON
        return {k: decode_payload(v) for k, v in x.items()}
    if isinstance(x, list):
        return [decode_payload(v) for v in x]
    return x


class RecordingEvent(asyncio.Event):
    """The event's completion signal, recording the instant it is first set."""

    def __init__(self, w, name):
        super().__init__()
        self._w = w
        self._name = name

    def set(self):
        if not self.is_set():
            self._w.rec('sig', self._name)
        super().set()

    def clear(self):
        if self.is_set():
            self._w.rec('sig_clear', self._name)
        super().clear()


class RecQueue(svc.CleanShutdownQueue):
    """Queue that records exact dequeue instants (who removed which event)."""

    _sim_bus = None

    def get_nowait(self):
        item = super().get_nowait()
        b = self._sim_bus
        if b is not None:
            w = b._w
            act = w.task_act.get(asyncio.current_task())
            w.rec('deq', b.name, w.names.get(item.event_id, '?'), 'inline:' + act if act else 'runloop')
        return item


class SimBus(EventBus):
    _w: 'World' = None  # type: ignore

    def _start(self):
        super()._start()
        q = self.event_queue
        if q is not None and getattr(q, '_sim_bus', None) is None:
            try:
                q._sim_bus = self
            except Exception:
                pass

    async def _run_loop(self):
        try:
            await super()._run_loop()
        finally:
            self._w.rec('runloop_exit', self.name)

    def dispatch(self, event):
        w = self._w
        actor = w.cur_actor
        w.cur_actor = None
        if actor is None:
            actor = 'fwd:' + (w.fwd_src or '?')
            w.fwd_src = None
        name = w.names.get(event.event_id, '?')
        try:
            r = super().dispatch(event)
        except BaseException as e:
            w.rec('disp', actor, self.name, name, 'REJ:' + type(e).__name__, len(self.event_history))
            raise
        w.rec('disp', actor, self.name, name, 'ok', len(self.event_history))
        return r

    async def process_event(self, event, timeout=None):
        w = self._w
        name = w.names.get(event.event_id, '?')
        act = w.task_act.get(asyncio.current_task())
        w.rec('pe_begin', self.name, name, 'inline:' + act if act else 'runloop')
        try:
            await super().process_event(event, timeout)
        except BaseException as e:
            w.rec('pe_exc', self.name, name, type(e).__name__, _san(e))
            raise
        w.rec('pe_end', self.name, name, len(self.event_history))

    async def execute_handler(self, event, handler, timeout=None):
        d = self._w.handler_desc.get(id(handler))
        if d is not None and d[0] == 'fwd':
            self._w.fwd_src = self.name
        return await super().execute_handler(event, handler, timeout)

    async def _default_wal_handler(self, event):
        # the line is serialised first thing in the handler (no suspension point before model_dump_json()): mark the instant,
        # several WAL writes of different buses can be in flight at once
        if self.wal_path:
            self._w.rec('wal_begin', self.name, self._w.names.get(event.event_id, '?'))
        return await super()._default_wal_handler(event)

    def cleanup_event_history(self):
        w = self._w
        before = [(w.names.get(i, '?'), e.event_status) for i, e in self.event_history.items()]
        n = super().cleanup_event_history()
        if n:
            after = {w.names.get(i, '?') for i in self.event_history}
            w.rec('evict', self.name, tuple(before), tuple(x for x, _ in before if x not in after), self.max_history_size)
        return n


class Holder:
    """Carrier for method / classmethod handlers."""


class World:
    def __init__(self, sc: dict):
        self.sc = sc
        self.recs: list[tuple] = []
        self.seq = 0
        self.loop: SimLoop | None = None
        self.buses: dict[str, SimBus] = {}
        self.events: dict[str, Ev] = {}
        self.names: dict[str, str] = {}  # event_id -> e<n>
        self.sid: dict[str, str] = {}  # e<n> -> structural id
        self.creator: dict[str, str] = {}  # e<n> -> actor that created (and first dispatched) it
        self.nev = 0
        self.spawned = []  # background tasks started by handlers (spawn_dispatch)
        self.nact = 0
        self.task_act: dict[Any, str] = {}
        self.act_info: dict[str, tuple] = {}  # act -> (bus, ev, hi)
        self.handler_desc: dict[int, tuple] = {}
        self.handler_objs: list[Any] = []
        self.raised: dict[str, BaseException] = {}  # act -> exception object raised/returned
        self.cur_actor: str | None = None
        self.fwd_src: str | None = None
        self.last_progress = 0.0
        self.caller_tasks: list[asyncio.Task] = []
        self.final: dict = {}
        self.fs = None
        self.errlog = None
        self.watch = None  # optional callable run after every callback (online invariants)
        self.xn = 0
        self.online: list[tuple] = []  # violations detected online
        self.nprogress = 0
        self.registered: set = set()
        self.payloads: dict[str, tuple] = {}
        self.values: dict[str, int] = {}

    # -- trace ---------------------------------------------------------------------
    def rec(self, kind, *fields):
        self.seq += 1
        t = self.loop.time()
        self.last_progress = t
        self.recs.append((self.seq, round(t, 9), kind) + fields)
        if kind in ('disp', 'pe_begin', 'pe_end', 'enter', 'exit', 'deq'):
            self.nprogress += 1
        return self.seq

    def register_handler(self, hi, actor='main'):
        """bus.on(...) for scenario handler hi (handlers marked late are registered by a 'register' op)."""
        if hi in self.registered:
            return
        h = self.sc['handlers'][hi]
        bus = self.buses[h['bus']]
        if h.get('kind') == 'forward':
            fwd = self.buses[h['to']].dispatch
            self.handler_objs.append(fwd)
            self.handler_desc[id(fwd)] = ('fwd', h['bus'], h['to'], hi)
            bus.on(h.get('pattern', '*') if h.get('by') != 'class' or h.get('pattern', '*') == '*' else EVT[h['pattern']], fwd)
        else:
            fn = make_handler(self, hi, h)
            self.handler_objs.append(fn)
            self.handler_desc[id(fn)] = ('h', hi)
            pat = h['pattern']
            bus.on(EVT[pat] if (h.get('by', 'class') == 'class' and pat != '*') else pat, fn)
        self.registered.add(hi)
        self.rec('register', hi, h['bus'], actor)

    def new_event(self, typ, depth, opts, actor, sid):
        self.nev += 1
        name = f'e{self.nev}'
        kw = dict(k=self.nev, depth=depth, v=opts.get('v', 0), event_timeout=opts.get('timeout', self.sc.get('event_timeout', 300.0)),
                  event_id=f'00000000-0000-7000-8000-{self.nev:012d}')
        if 'payload' in opts:
            kw['payload'] = decode_payload(opts['payload'])
        if opts.get('extra'):
            kw.update({k: decode_payload(v) for k, v in opts['extra'].items()})
        ev = EVT[typ](**kw)
        self.values[name] = kw['v']
        if 'payload' in opts or opts.get('extra'):
            self.payloads[name] = (opts.get('payload'), dict(opts.get('extra') or {}))
        ev._event_completed_signal = RecordingEvent(self, name)
        self.names[ev.event_id] = name
        self.events[name] = ev
        self.sid[name] = sid
        self.creator[name] = actor
        self.rec('new', name, typ, actor, sid, kw['event_timeout'])
        return name, ev


async def run_prog(w: World, prog, actor: str, depth: int, in_handler: bool, sid_prefix: str, event=None, bus=None):
    """Interpret a handler/caller program.  Returns the handler's return value."""
    binds: dict[str, tuple] = {}
    sc = w.sc
    ret = None
    for opi, op in enumerate(prog):
        o = op[0]
        if o == 'yield':
            for _ in range(op[1]):
                await asyncio.sleep(0)
        elif o == 'pause':
            await asyncio.sleep(op[1])
            w.last_progress = w.loop.time()  # a scripted sleep ending is progress (silence detector)
        elif o == 'burn':
            w.rec('burn', actor, op[1])
            w.loop.burn(op[1])
        elif o == 'dispatch_noloop':
            # dispatch() as a worker thread would see it: the handler's context, but no running event loop
            _, busn, typ, opts, var = op
            if in_handler and depth >= sc.get('max_depth', 2):
                continue
            name, ev = w.new_event(typ, depth + 1 if in_handler else 0, dict(opts or {}), actor, f'{sid_prefix}.{opi}')
            from asyncio import events as _ev
            running = _ev._get_running_loop()
            _ev._set_running_loop(None)
            try:
                ok = do_dispatch(w, actor, busn, name, ev)
            finally:
                _ev._set_running_loop(running)
            if var:
                binds[var] = (name, ev, ok)
        elif o in ('dispatch', 'dispatch_await'):
            _, busn, typ, opts, var = op
            if in_handler and depth >= sc.get('max_depth', 2):
                continue
            if w.nev >= sc.get('max_events', 160):
                continue  # size cap: keeps generated programs bounded
            opts = dict(opts or {})
            name, ev = w.new_event(typ, depth + 1 if in_handler else 0, opts, actor, f'{sid_prefix}.{opi}')
            if opts.get('parent'):
                pv = binds.get(opts['parent'])
                if pv is not None:
                    ev.event_parent_id = pv[1].event_id
                    w.rec('explicit_parent', name, pv[0])
            ok = do_dispatch(w, actor, busn, name, ev)
            if var:
                binds[var] = (name, ev, ok)
            if o == 'dispatch_await' and ok:
                await do_await(w, actor, name, ev, in_handler)
        elif o == 'await':
            b = binds.get(op[1])
            if b is not None and b[2]:
                await do_await(w, actor, b[0], b[1], in_handler)
        elif o == 'redispatch':
            b = binds.get(op[2])
            if b is not None:
                do_dispatch(w, actor, op[1], b[0], b[1])
        elif o == 'spawn_dispatch':
            # a background task started by the handler: asyncio copies the handler's context into it, so what it
            # dispatches later still counts as a child of the handler's event
            _, delay, busn, typ = op
            if w.nev >= sc.get('max_events', 160):
                continue
            name, ev = w.new_event(typ, depth + 1 if in_handler else 0, {}, actor, f'{sid_prefix}.{opi}')

            async def later(delay=delay, busn=busn, name=name, ev=ev):
                await asyncio.sleep(delay)
                w.last_progress = w.loop.time()
                do_dispatch(w, actor, busn, name, ev)

            w.spawned.append(asyncio.get_running_loop().create_task(later()))
        elif o == 'redispatch_self':
            if event is not None:
                do_dispatch(w, actor, op[1], w.names[event.event_id], event)
        elif o == 'raise':
            exc = EXC[op[1]](f'{op[1]} from {actor}')
            w.raised[actor] = exc
            raise exc
        elif o == 'raise_cancelled':
            w.rec('raise_cancelled', actor)
            raise asyncio.CancelledError()
        elif o == 'return_exc':
            exc = EXC[op[1]](f'{op[1]} returned by {actor}')
            w.raised[actor] = exc
            return exc
        elif o == 'return':
            return op[1]
        elif o == 'read_event_bus':
            try:
                got = event.event_bus.name
            except BaseException as e:  # noqa
                got = 'EXC:' + type(e).__name__
            w.rec('ebus', actor, bus, got)
        elif o == 'expect':
            await do_expect(w, actor, op)
        elif o == 'wait_idle':
            await do_wait_idle(w, actor, op[1], op[2] if len(op) > 2 else None)
        elif o == 'stop':
            await do_stop(w, actor, op[1], op[2] if len(op) > 2 else None, bool(op[3]) if len(op) > 3 else False)
        elif o == 'cancel_caller':
            j = op[1]
            if j < len(w.caller_tasks) and not w.caller_tasks[j].done():
                w.rec('cancel', f'c{j}', actor)
                w.caller_tasks[j].cancel()
        elif o == 'register':
            w.register_handler(op[1], actor)
        elif o == 'results':
            b = binds.get(op[1])
            if b is not None and b[2]:
                await do_results(w, actor, b[0], b[1], op[2], op[3])
        else:
            raise AssertionError(f'unknown op {op}')
    return ret


def do_dispatch(w: World, actor, busn, name, ev) -> bool:
    w.cur_actor = actor
    try:
        w.buses[busn].dispatch(ev)
        return True
    except Exception as e:  # rejected: recorded by SimBus.dispatch
        w.cur_actor = None
        if not isinstance(e, (RuntimeError, asyncio.QueueFull)):
            w.rec('disp_odd_exc', actor, busn, name, type(e).__name__, _san(e))
        return False


def _snapshot_results(w: World, ev):
    out = []
    for r in ev.event_results.values():
        out.append((r.eventbus_name, r.status))
    return tuple(out)


async def do_await(w: World, actor, name, ev, in_handler):
    w.rec('aw_begin', actor, name)
    outcome = 'ret'
    same = None
    try:
        r = await ev
        same = r is ev
    except asyncio.CancelledError:
        outcome = 'cancelled'
        raise
    except BaseException as e:
        outcome = 'exc:' + type(e).__name__
        if in_handler:
            raise
    finally:
        sig = ev._event_completed_signal
        w.rec('aw_end', actor, name, outcome, ev.event_status, bool(sig and sig.is_set()), _snapshot_results(w, ev), same)


async def do_results(w: World, actor, name, ev, accessor, raise_if_any):
    """C11: result accessor with raise_if_any flag."""
    def ident_of(e):
        for act, ex in w.raised.items():
            if ex is e:
                return act
        return type(e).__name__

    # errors recorded on the event at the time of the call, in handler order
    def errs():
        return tuple(ident_of(r.error if r.error is not None else r.result) for r in ev.event_results.values()
                     if r.error is not None or isinstance(r.result, BaseException))

    errs_now = errs()
    try:
        fn = getattr(ev, accessor)
        val = await fn(raise_if_any=raise_if_any, raise_if_none=False)
        w.rec('results', actor, name, accessor, raise_if_any, 'ret', _san(repr(val)), errs_now, errs())
    except asyncio.CancelledError:
        raise
    except BaseException as e:
        ident = None
        for act, ex in w.raised.items():
            if ex is e:
                ident = act
        w.rec('results', actor, name, accessor, raise_if_any, 'exc:' + type(e).__name__, ident, errs_now, errs())


def _mk_filter(spec):
    if spec is None:
        return None
    kind = spec[0]
    if kind == 'mod':
        m, r = spec[1], spec[2]
        return lambda e: e.v % m == r
    if kind == 'ge':
        x = spec[1]
        return lambda e: e.v >= x
    if kind == 'eq':
        x = spec[1]
        return lambda e: e.v == x
    if kind == 'raise':
        x = spec[1]

        def f(e):
            if e.v >= x:
                raise Boom('predicate')
            return False

        return f
    if kind == 'true':
        return lambda e: True
    if kind == 'false':
        return lambda e: False
    raise AssertionError(spec)


def _nhandlers(bus):
    return sum(len(v) for v in bus.handlers.values())


async def do_expect(w: World, actor, op):
    _, busn, typ, filt, timeout, by = op[:6]
    bus = w.buses[busn]
    w.xn += 1
    xid = f'x{w.xn}'
    kw = {}
    filt = filt or {}
    for key, arg in (('inc', 'include'), ('exc', 'exclude'), ('pred', 'predicate')):
        f = _mk_filter(filt.get(key))
        if f is not None:
            kw[arg] = f
    pattern = EVT[typ] if by == 'class' else typ
    n0 = _nhandlers(bus)
    w.rec('expect_begin', actor, busn, xid, typ, json.dumps(filt, sort_keys=True), timeout)
    outcome, got = 'ret', None
    try:
        r = await bus.expect(pattern, timeout=timeout, **kw)
        got = w.names.get(getattr(r, 'event_id', None), '?')
    except asyncio.CancelledError:
        outcome = 'cancelled'
        raise
    except BaseException as e:
        outcome = 'exc:' + type(e).__name__
    finally:
        w.rec('expect_end', actor, busn, xid, outcome, got, n0, _nhandlers(bus))


def bus_state(bus):
    q = bus.event_queue
    return (q.qsize() if q else 0, len(bus.events_pending), len(bus.events_started),
            tuple(sorted(bus._w.names.get(e.event_id, '?') for e in bus.events_pending + bus.events_started)))


async def do_wait_idle(w: World, actor, busn, timeout):
    bus = w.buses[busn]
    w.rec('idle_begin', actor, busn, timeout)
    outcome = 'ret'
    try:
        await bus.wait_until_idle(timeout=timeout)
    except asyncio.CancelledError:
        outcome = 'cancelled'
        raise
    except BaseException as e:
        outcome = 'exc:' + type(e).__name__
    finally:
        w.rec('idle_end', actor, busn, outcome, bus_state(bus))


async def do_stop(w: World, actor, busn, timeout, clear):
    bus = w.buses[busn]
    w.rec('stop_begin', actor, busn, timeout, bus._is_running)
    outcome = 'ret'
    try:
        await bus.stop(timeout=timeout, clear=clear)
    except asyncio.CancelledError:
        outcome = 'cancelled'
        raise
    except BaseException as e:
        outcome = 'exc:' + type(e).__name__
    finally:
        w.rec('stop_end', actor, busn, outcome)


def make_handler(w: World, hi: int, spec: dict):
    busn = spec['bus']
    prog = spec.get('prog', [])
    _ret = spec.get('ret', f'r{hi}')


    def fresh():
        # a fresh object per activation (lists / dicts must not be shared between events by the harness itself)
        return list(_ret) if isinstance(_ret, list) else dict(_ret) if isinstance(_ret, dict) else _ret

    def enter(event, register_task):
        w.nact += 1
        act = f'a{w.nact}'
        en = w.names.get(event.event_id, '?')
        w.act_info[act] = (busn, en, hi)
        if register_task:
            w.task_act[asyncio.current_task()] = act
        w.rec('enter', busn, en, hi, act, event is w.events.get(en))
        return act, en

    async def abody(event):
        act, en = enter(event, True)
        task = asyncio.current_task()
        try:
            r = await run_prog(w, prog, act, event.depth, True, f'{w.sid[en]}/{busn}.h{hi}', event, busn)
            w.rec('exit', act, 'ret')
            return fresh() if r is None else r
        except asyncio.CancelledError:
            try:
                if spec.get('cleanup'):
                    # a handler that needs time to unwind after a cancellation (awaits in its finally / except blocks);
                    # a second cancellation cuts the unwinding short
                    w.rec('cleanup', act, spec['cleanup'])
                    await asyncio.sleep(spec['cleanup'])
                    w.last_progress = w.loop.time()
            finally:
                w.rec('exit', act, 'cancelled')
            raise
        except BaseException as e:
            w.rec('exit', act, 'raise:' + type(e).__name__)
            raise
        finally:
            w.task_act.pop(task, None)

    def sbody(event):
        act, en = enter(event, False)
        try:
            r = None
            for opi, op in enumerate(prog):
                o = op[0]
                if o == 'burn':
                    w.rec('burn', act, op[1])
                    w.loop.burn(op[1])
                elif o == 'dispatch':
                    _, bn, typ, opts, var = op
                    if event.depth >= w.sc.get('max_depth', 2) or w.nev >= w.sc.get('max_events', 160):
                        continue
                    name, ev = w.new_event(typ, event.depth + 1, dict(opts or {}), act, f'{w.sid[en]}/{busn}.h{hi}.{opi}')
                    do_dispatch(w, act, bn, name, ev)
                elif o == 'redispatch_self':
                    do_dispatch(w, act, op[1], en, event)
                elif o == 'raise':
                    exc = EXC[op[1]](f'{op[1]} from {act}')
                    w.raised[act] = exc
                    raise exc
                elif o == 'return_exc':
                    exc = EXC[op[1]](f'{op[1]} returned by {act}')
                    w.raised[act] = exc
                    r = exc
                    break
                elif o == 'read_event_bus':
                    try:
                        got = event.event_bus.name
                    except BaseException as e:  # noqa
                        got = 'EXC:' + type(e).__name__
                    w.rec('ebus', act, busn, got)
                elif o in ('yield', 'pause', 'await', 'dispatch_await'):
                    continue  # not expressible in a sync handler
                else:
                    raise AssertionError(f'op {op} not allowed in sync handler')
            w.rec('exit', act, 'ret')
            return fresh() if r is None else r
        except BaseException as e:
            w.rec('exit', act, 'raise:' + type(e).__name__)
            raise

    kind = spec.get('kind', 'async')
    name = f'h{hi}'
    if kind == 'async':
        h = abody
        h.__name__ = name
    elif kind == 'sync':
        h = sbody
        h.__name__ = name
    else:
        holder_cls = type(f'Holder{hi}', (Holder,), {})
        if kind == 'amethod':
            async def m(self, event):
                return await abody(event)
            m.__name__ = name
            setattr(holder_cls, name, m)
            obj = holder_cls()
            w.handler_objs.append(obj)
            h = getattr(obj, name)
        elif kind == 'smethod':
            def m(self, event):
                return sbody(event)
            m.__name__ = name
            setattr(holder_cls, name, m)
            obj = holder_cls()
            w.handler_objs.append(obj)
            h = getattr(obj, name)
        elif kind == 'aclassmethod':
            async def m(cls, event):
                return await abody(event)
            m.__name__ = name
            setattr(holder_cls, name, classmethod(m))
            w.handler_objs.append(holder_cls)
            h = getattr(holder_cls, name)
        elif kind == 'sstatic':
            def m(event):
                return sbody(event)
            m.__name__ = name
            setattr(holder_cls, name, staticmethod(m))
            w.handler_objs.append(holder_cls)
            h = getattr(holder_cls, name)
        else:
            raise AssertionError(kind)
    return h


def _final_snapshot(w: World):
    evs = {}
    for name, ev in w.events.items():
        sig = ev._event_completed_signal
        results = []
        for hid, r in ev.event_results.items():
            try:
                hdesc = w.handler_desc.get(int(hid.split('.')[1]))
            except Exception:
                hdesc = None
            err = r.error
            ident = None
            if err is not None:
                for act, ex in w.raised.items():
                    if ex is err:
                        ident = act
            results.append({
                'bus': r.eventbus_name, 'h': hdesc, 'status': r.status,
                'err': type(err).__name__ if err is not None else None, 'err_ident': ident,
                'err_msg': _san(err, 40) if err is not None else None,
                'children': tuple(w.names.get(c.event_id, '?') for c in r.event_children),
                'result': (('event:' + w.names.get(r.result.event_id, '?')) if isinstance(r.result, BaseEvent) else repr(r.result)[:40]),
            })
        evs[name] = {
            'status': ev.event_status, 'sig': bool(sig and sig.is_set()),
            'parent': w.names.get(ev.event_parent_id, ev.event_parent_id) if ev.event_parent_id else None,
            'path': tuple(ev.event_path), 'results': results, 'type': ev.event_type,
        }
    buses = {}
    for bn, b in w.buses.items():
        buses[bn] = {
            'history': tuple(w.names.get(i, '?') for i in b.event_history),
            'state': bus_state(b), 'running': b._is_running, 'nhandlers': _nhandlers(b),
            'runloop_done': (b._runloop_task.done() if b._runloop_task is not None else None),
        }
    return {'events': evs, 'buses': buses}


def completion_watch(w: World):
    """C08 online observer: snapshot of every event when it is first seen complete (status 'completed'
    and completion signalled), compared again after every later callback of the run."""
    snaps: dict[str, tuple] = {}
    flagged: set = set()

    def snap(ev):
        return (ev.event_status, tuple((hid, r.status, id(r.result) if r.result is not None else None, id(r.error) if r.error is not None else None,
                                        repr(r.result)[:120] if isinstance(r.result, (list, dict, str, int, float, tuple)) else None)
                                       for hid, r in ev.event_results.items()))

    state = {'tick': 0, 'units': 0}

    def watch():
        # Cost bound: comparing every observed event after every callback is quadratic in the size of the run.  While
        # the observed events hold <= 96 handler results in total every callback is checked; beyond that the full
        # comparison runs every (results // 96)-th callback (a change after completion persists, it is still seen).
        state['tick'] += 1
        sweep = state['tick'] % max(1, state['units'] // 96) == 0
        for name, ev in w.events.items():
            sig = ev._event_completed_signal
            if name not in snaps:
                if sig is not None and sig.is_set() and ev.event_status == 'completed':
                    snaps[name] = snap(ev)
                    state['units'] += len(ev.event_results) + 1
                    w.rec('observed_complete', name, tuple(ev.event_path))
                continue
            if name in flagged or not sweep:
                continue
            now = snap(ev)
            if now != snaps[name] or not sig.is_set():
                old = snaps[name]
                what = []
                if not sig.is_set():
                    what.append('signal_cleared')
                if now[0] != 'completed':
                    what.append('status_' + now[0])
                old_ids = {x[0]: x for x in old[1]}
                for x in now[1]:
                    if x[0] not in old_ids:
                        r = ev.event_results[x[0]]
                        what.append('result_added:' + r.eventbus_name)
                    elif old_ids[x[0]] != x:
                        what.append('result_changed:' + ev.event_results[x[0]].eventbus_name)
                if len(now[1]) < len(old[1]):
                    what.append('result_removed')
                flagged.add(name)
                w.rec('changed_after_complete', name, tuple(what))

    return watch


def run_scenario(sc: dict, watch_factory=None, keep_world=False):
    """Execute one scenario.  Returns (world, result dict)."""
    bounds = sc.get('bounds', {})
    loop = SimLoop(horizon=bounds.get('horizon', 600.0), max_steps=bounds.get('max_steps', 300_000))
    fs = None
    if any(b.get('wal') for b in sc['buses']):
        io = sc.get('faults', {}).get('io', {})
        fs = seams.SimFS(loop, faults=io.get('faults'), latency=tuple(io.get('latency', (0.0, 0.002, 0.003))))
    order = sc.get('bus_order') or {}
    errlog = seams.install(loop, bus_perm=order.get('perm'), rotate_every=order.get('rotate_every', 0), fs=fs, queue_cls=RecQueue)
    w = World(sc)
    w.loop = loop
    w.fs = fs
    w.errlog = errlog
    res: dict = {'end': None}
    faults = sc.get('faults', {})
    loop.stalls = sorted([list(x) for x in faults.get('stalls', [])])
    silence_limit = bounds.get('silence', 10.0)
    loop.silence = (lambda: w.last_progress, silence_limit)
    loop.progress = lambda: w.nprogress

    at_step = {int(k): a for k, a in faults.get('at_step', [])}
    injected: list[asyncio.Task] = []

    last_inj = [None]

    def step_hook(k):
        a = at_step.get(k)
        if a is None:
            return
        kind = a[0]
        last_inj[0] = loop.time()
        if kind == 'stop':
            if a[1] in w.buses:
                t = loop.create_task(do_stop(w, f'inj{k}', a[1], a[2] if len(a) > 2 else None, False))
                injected.append(t)
        elif kind == 'cancel_runloop':
            b = w.buses.get(a[1])
            if b is not None and b._runloop_task is not None and not b._runloop_task.done():
                w.rec('cancel', 'runloop:' + a[1], f'inj{k}')
                w.final.setdefault('cancelled_runloops', []).append((a[1], b._runloop_task))
                b._runloop_task.cancel()
        elif kind == 'cancel_caller':
            j = a[1]
            if j < len(w.caller_tasks) and not w.caller_tasks[j].done():
                w.rec('cancel', f'c{j}', f'inj{k}')
                w.caller_tasks[j].cancel()
        elif kind == 'cancel_all':
            # what asyncio.run() does at exit: cancel every task
            w.rec('cancel', 'ALL', f'inj{k}')
            w.final['cancel_all_tasks'] = [t for t in loop.tasks_in_creation_order() if not t.done()]
            for t in w.final['cancel_all_tasks']:
                t.cancel()

    if at_step:
        loop.step_hook = step_hook
    if watch_factory is not None:
        w.watch = watch_factory(w)
        loop.after_hook = w.watch

    async def caller(ci, c):
        actor = f'c{ci}'
        w.rec('caller_begin', actor)
        try:
            await run_prog(w, c['prog'], actor, 0, False, actor)
            w.rec('caller_end', actor, 'ret')
        except asyncio.CancelledError:
            w.rec('caller_end', actor, 'cancelled')
        except BaseException as e:
            w.rec('caller_end', actor, 'exc:' + type(e).__name__, _san(e))

    async def main():
        for b in sc['buses']:
            bus = SimBus(name=b['name'], parallel_handlers=b.get('parallel', False), max_history_size=b.get('max_history', 50))
            bus._w = w
            w.buses[b['name']] = bus
            if b.get('wal'):
                bus.wal_path = fs.path(f"/wal/{b['name']}.jsonl")
            if fs is not None:
                fs.on_op = lambda kind, path, fault, n: w.rec('io', kind, path, fault, n)
        for hi, h in enumerate(sc['handlers']):
            if not h.get('late'):
                w.register_handler(hi)
        w.rec('start')
        for ci, c in enumerate(sc['callers']):
            w.caller_tasks.append(loop.create_task(caller(ci, c)))
        if w.caller_tasks:
            await asyncio.wait(w.caller_tasks)
        for t in injected:
            if not t.done():
                await asyncio.wait([t])
        if at_step:
            # leave time for the consequences of an injected stop / cancel to show (and to be judged)
            await asyncio.sleep(1.0)
        w.rec('callers_done')
        if not sc.get('no_final_idle'):
            # settle: repeat passes over all buses until a whole pass saw no new activity
            for rnd in range(12):
                mark = w.nprogress
                for bn, bus in w.buses.items():
                    if bus._is_running:
                        await do_wait_idle(w, f'main{rnd}', bn, None)
                if w.nprogress == mark and rnd > 0:
                    break
        w.rec('settled')

    try:
        loop.run_sim(main())
        res['end'] = 'ok'
        # an injection may have landed in the very last iteration: always leave >= 1 virtual second after it
        for _ in range(4):
            if not at_step or last_inj[0] is None or loop.time() - last_inj[0] >= 1.0:
                break
            loop.run_sim(asyncio.sleep(1.0))
    except SimStop as s:
        res['end'] = 'cut:' + s.verdict
        w.rec('cut', s.verdict)
    except asyncio.CancelledError:
        # cancel_all fault (what asyncio.run() does at exit): main itself was cancelled.  Give every
        # cancelled task the chance to finish, then look at who is still alive.
        res['end'] = 'cancelled_all'
        w.rec('main_cancelled')
        try:
            loop.run_sim(asyncio.sleep(1.0))
            if last_inj[0] is not None and loop.time() - last_inj[0] < 1.0:
                loop.run_sim(asyncio.sleep(1.0))
        except SimStop as s:
            res['end'] = 'cut:' + s.verdict
            w.rec('cut', s.verdict)
    except BaseException as e:  # harness error
        import traceback

        res['end'] = 'harness:' + repr(e)[:200]
        res['tb'] = traceback.format_exc()
    w.rec('teardown')  # everything recorded after this point is clean-up, not part of the run
    try:
        snap = _final_snapshot(w)
        w.final.update(snap)
    except BaseException as e:
        res['end'] = 'harness:snapshot:' + repr(e)[:200]
    res['steps'] = loop.steps
    res['vt'] = loop.time()
    res['jumps'] = loop.jumps
    res['stalls_fired'] = loop.stalls_fired
    res['multi_due'] = loop.multi_due
    res['thread_calls'] = loop.thread_calls
    res['errlog'] = list(errlog.records)
    if fs is not None:
        res['files'] = dict(fs.files)
        res['io_ops'] = list(fs.ops)
        res['io_fired'] = dict(fs.fired)
        res['io_texts'] = list(fs.texts)
    # post-run task facts for C16 (before teardown cancels everything)
    if 'cancelled_runloops' in w.final:
        w.final['cancelled_runloops'] = [(bn, t.done()) for bn, t in w.final['cancelled_runloops']]
    if 'cancel_all_tasks' in w.final:
        w.final['cancel_all_tasks'] = [(t.get_coro().__qualname__ if t.get_coro() else '?', t.done()) for t in w.final['cancel_all_tasks']]
    # teardown
    for b in w.buses.values():
        b._is_running = False
        if b.event_queue:
            try:
                b.event_queue.shutdown()
            except Exception:
                pass
    res['leftover'] = teardown(loop)
    seams.uninstall()
    if not keep_world:
        w.buses = {}
        w.handler_objs = []
        w.task_act = {}
        w.caller_tasks = []
        w.loop = None
        w.fs = None
    return w, res


def trace_digest(w: World, res: dict) -> str:
    h = hashlib.sha256()
    for r in w.recs:
        h.update(repr(r).encode())
        if r[2] in ('cut', 'teardown'):
            break  # what follows is teardown (task cancellation order is not part of the run)
    h.update(repr(sorted((k, repr(v)) for k, v in w.final.get('events', {}).items())).encode())
    h.update(str(res.get('end')).encode())
    return h.hexdigest()[:16]


def abstract_trace(w: World) -> str:
    """Interleaving measure: the record sequence with ids, times and sizes erased."""
    h = hashlib.sha256()
    sid = w.sid
    acts = w.act_info
    for r in w.recs:
        k = r[2]
        if k in ('cut', 'teardown'):
            break
        if k == 'enter':
            h.update(f'E{r[3]}{sid.get(r[4])}{r[5]}|'.encode())
        elif k == 'exit':
            a = acts.get(r[3])
            h.update(f'X{a[0]}{sid.get(a[1])}{a[2]}{r[4][:3]}|'.encode() if a else b'X?|')
        elif k == 'disp':
            h.update(f'D{r[4]}{sid.get(r[5])}{r[6][:3]}|'.encode())
        elif k in ('pe_begin',):
            h.update(f'P{r[3]}{sid.get(r[4])}{r[5][:2]}|'.encode())
        elif k in ('aw_begin', 'aw_end', 'sig', 'deq'):
            h.update(f'{k[:2]}{sid.get(r[4] if k != "sig" else r[3])}|'.encode())
        elif k in ('idle_end', 'stop_end', 'expect_end', 'caller_end'):
            h.update(f'{k}{r[3]}|'.encode())
    return h.hexdigest()[:16]
