import sys, json
sys.path.insert(0, '/verif')
from sim.survey import evaluate
from sim import gen
prof, seed = sys.argv[1], int(sys.argv[2])
only = sys.argv[3] if len(sys.argv) > 3 else None
sc = json.load(open(prof)) if prof.endswith('.json') else gen.gen(prof, seed)
print(json.dumps(sc))
w, res, F, V = evaluate(sc)
for r in w.recs: print(str(r)[:220])
res['errlog']=[x[:100] for x in res['errlog'][:3]]
print({k: v for k, v in res.items() if k not in ('files',)})
for v in V:
    if only is None or v['clause'].startswith(only): print(v)
