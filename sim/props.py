"""Per-property configuration: which profiles are searched, which oracle decides, what counts
as a non-trivial run, which faults/probes are counted.  One entry point: run_one()."""
from __future__ import annotations

import collections

from . import diagnose, gen, oracle
from .facts import Facts
from .world import abstract_trace, completion_watch, run_scenario, trace_digest


def _raised(w, F):
    raised = {}
    for a in F.acts.values():
        if a.how and a.how.startswith('raise:') and a.id in w.raised:
            raised[a.id] = 'raise'
    for act in w.raised:
        raised.setdefault(act, 'return_exc')
    return raised


def _inhandler_awaits(F):
    return sum(1 for aw in F.awaits if aw.actor in F.acts)


# nontrivial rules (stated in evidence): the run exercised the property's mechanism at least once
NONTRIVIAL = {
    'C01': ('>=2 handler activations and (>=2 buses touched or a nested dispatch or a re-dispatch)',
            lambda F, w, res: len(F.acts) >= 2 and (len({a.bus for a in F.acts.values()}) >= 2 or any(a in F.acts for a in F.creator.values())
                                                     or len(F.disps) > len(F.accepted_events))),
    'C02': ('some bus had >=2 events enqueued before the first of them finished processing',
            lambda F, w, res: _backlog(F)),
    'C03': ('an external await returned for an event that has >=1 ground-truth descendant',
            lambda F, w, res: any(aw.actor not in F.acts and aw.e is not None and F.desc(aw.ev) for aw in F.awaits)),
    'C04': ('>=1 in-handler await of a child', lambda F, w, res: _inhandler_awaits(F) >= 1),
    'C05': ('an in-handler await began while some bus queue held another event',
            lambda F, w, res: _await_with_backlog(F)),
    'C06': ('>=2 buses had handler activations, or nested in-handler awaits occurred',
            lambda F, w, res: len({a.bus for a in F.acts.values()}) >= 2 or _inhandler_awaits(F) >= 1),
    'C07': ('an event was accepted by >=2 buses through forwarding',
            lambda F, w, res: any(d[2].startswith('fwd:') and d[5] == 'ok' for d in F.disps)),
    'C08': ('an event completed and the run continued for >=1 more handler activation afterwards',
            lambda F, w, res: bool(F.sig) and bool(F.acts) and min(F.sig.values()) < max(a.enter_seq for a in F.acts.values())),
    'C09': ('>=1 event dispatched from inside a handler', lambda F, w, res: any(a in F.acts for a in F.creator.values())),
    'C10': ('>=1 handler was cancelled by an event timeout',
            lambda F, w, res: any(a.how == 'cancelled' for a in F.acts.values())),
    'C11': ('>=1 handler raised or returned an exception', lambda F, w, res: bool(w.raised)),
    'C13': ('>=1 history eviction happened', lambda F, w, res: bool(F.evicts)),
    'C14': ('>=1 dispatch was rejected', lambda F, w, res: bool(F.rejected)),
    'C15': ('wait_until_idle was called while the bus had unfinished work',
            lambda F, w, res: _idle_with_work(F)),
    'C17': ('>=2 WAL lines were written (or an I/O fault fired)',
            lambda F, w, res: len(res.get('io_texts', [])) >= 2 or bool(res.get('io_fired'))),
    'C18': ('>=1 expect() call ended while >=1 event of its type was processed during the call',
            lambda F, w, res: any(r[2] == 'expect_end' for r in F.expects) and bool(F.pe)),
    'C16': ('stop()/cancel was injected while the bus had queued or running work',
            lambda F, w, res: bool(F.stops or F.cancels)),
}


def _backlog(F):
    per = collections.defaultdict(list)
    for (bus, ev), s in F.accepted.items():
        per[bus].append((s, ev))
    for bus, lst in per.items():
        lst.sort()
        for i in range(len(lst) - 1):
            done = [p[1] for p in F.pe.get((bus, lst[i][1]), ()) if p[1] is not None]
            if not done or min(done) > lst[i + 1][0]:
                return True
    return False


def _await_with_backlog(F):
    for aw in F.awaits:
        if aw.actor not in F.acts:
            continue
        for (bus, ev), s in F.accepted.items():
            if ev != aw.ev and s < aw.b:
                began = [p[0] for p in F.pe.get((bus, ev), ())]
                if not began or min(began) > aw.b:
                    return True
    return False


def _idle_with_work(F):
    for x in F.idles:
        bus, b = x[0], x[1]
        if x[6].startswith('main'):
            continue
        for (bb, ev), s in F.accepted.items():
            if bb == bus and s < b and not F.processed(bus, ev, before=b):
                return True
    return False


BUS_PROPS = {
    'C01': dict(oracle=lambda F, w: oracle.c01(F),
                profiles=[('clean', 2), ('single', 2), ('multi', 3), ('multi_fwd', 2), ('parallel', 2), ('redispatch', 3), ('nested', 2), ('errors', 2), ('stalls', 1), ('late_reg', 3)]),
    'C02': dict(oracle=lambda F, w: oracle.c02(F),
                profiles=[('clean', 1), ('single', 2), ('multi', 3), ('multi_fwd', 2), ('backlog', 4), ('gap', 2), ('stalls', 2)]),
    'C03': dict(oracle=lambda F, w: oracle.c03(F),
                profiles=[('clean', 2), ('single', 2), ('nested', 3), ('multi', 3), ('multi_fwd', 2), ('errors', 2), ('deep', 1), ('backlog', 1), ('await_any', 2), ('errors_parallel', 3), ('parallel', 1)]),
    'C04': dict(oracle=lambda F, w: oracle.c04(F),
                profiles=[('clean', 3), ('single', 2), ('gap', 3), ('gap_fwd', 2), ('nested', 3), ('multi', 2), ('deep', 1), ('await_any', 3), ('await_any_clean', 2), ('timeouts', 3)]),
    'C05': dict(oracle=lambda F, w: oracle.c05(F),
                profiles=[('clean', 3), ('backlog', 3), ('gap', 2), ('multi', 2), ('nested', 2), ('await_any', 2), ('multi_stop', 3)]),
    'C06': dict(oracle=lambda F, w: oracle.c06(F),
                profiles=[('clean', 1), ('multi', 4), ('nested', 2), ('parallel', 2), ('stalls', 2), ('gap', 2), ('multi_fwd', 2), ('multi_stop', 4), ('errors_parallel', 3), ('timeouts_cleanup', 3)]),
    'C07': dict(oracle=lambda F, w: oracle.c07(F),
                profiles=[('topo', 5), ('topo_traffic', 4), ('topo_redispatch', 3), ('topo_small_history', 3), ('multi_fwd', 2), ('topo_timeouts', 3)]),
    'C08': dict(oracle=lambda F, w: oracle.c08(F), watch=completion_watch,
                profiles=[('topo', 4), ('topo_traffic', 2), ('multi_fwd', 3), ('nested', 2), ('redispatch', 2), ('clean', 1), ('errors', 3), ('timeouts', 3), ('timeouts_clean', 1), ('late_child', 3)]),
    'C09': dict(oracle=lambda F, w: oracle.c09(F),
                profiles=[('lineage', 4), ('redispatch', 2), ('parallel', 2), ('multi_fwd', 2), ('clean', 1)]),
    'C10': dict(oracle=lambda F, w: oracle.c10(F),
                profiles=[('timeouts_clean', 3), ('timeouts', 4), ('timeouts_burn', 2)]),
    'C11': dict(oracle=lambda F, w: oracle.c11(F, _raised(w, F)) + [v for v in oracle.c01(F) if v['clause'] in ('C01.missing', 'C01.duplicate')],
                profiles=[('errors', 5), ('errors_parallel', 3), ('single', 1)]),
    'C13': dict(oracle=lambda F, w: oracle.c13(F) + [v for v in oracle.c01(F) if v['clause'] != 'C01.hang'] + oracle.hang_violations(F, 'C13'),
                profiles=[('small_history_flat', 3), ('small_history', 3)]),
    'C14': dict(oracle=lambda F, w: oracle.c14(F),
                profiles=[('flood_caller', 3), ('flood_handler', 4), ('backlog', 1), ('small_history', 1), ('timeouts', 2), ('timeouts_burn', 3), ('timeout_enum', 2)]),
    'C15': dict(oracle=lambda F, w: oracle.c15(F),
                profiles=[('idle_race', 4), ('idle_gap', 3), ('idle_dead_loop', 3), ('idle_timeouts', 3), ('errors', 1), ('timeouts', 1), ('multi_fwd', 2)]),
    'C17': dict(oracle=lambda F, w: oracle.c17(F, w),
                profiles=[('wal', 4), ('wal_faults', 3), ('wal_enum', 3)]),
    'C18': dict(oracle=lambda F, w: oracle.c18(F, w),
                profiles=[('expect', 3), ('expect_enum', 2)]),
    'C16': dict(oracle=lambda F, w: oracle.c16(F),
                profiles=[('stop', 3), ('stop_enum', 3)]),
}


def evaluate_bus(prop, sc, keep=False):
    cfg = BUS_PROPS[prop]
    watch = cfg.get('watch')
    w, res = run_scenario(sc, watch_factory=watch, keep_world=keep)
    out = {'end': res['end'], 'steps': res['steps'], 'vt': res['vt'], 'leftover': res['leftover']}
    if str(res['end']).startswith('harness'):
        out['harness'] = res.get('tb') or res['end']
        return out, w, None
    F = Facts(sc, w.recs, w.final, res)
    V = cfg['oracle'](F, w)
    for v in V:
        # C01 clauses reused under another property keep their own diagnosis
        if 'cause' not in v:
            v['cause'] = diagnose.diagnose(F, v)
        v['prop'] = prop
        if not v['clause'].startswith(prop + '.'):
            v['clause'] = prop + '.' + v['clause'].replace('.', '_')
    out['viol'] = V
    out['digest'] = trace_digest(w, res)
    out['abstract'] = abstract_trace(w)
    nt = NONTRIVIAL.get(prop)
    out['nontrivial'] = bool(nt[1](F, w, res)) if nt else True
    faults = collections.Counter()
    faults['loop_stall'] = res['stalls_fired']
    faults['handler_timeout'] = sum(1 for a in F.acts.values() if a.how == 'cancelled')
    faults['handler_raise'] = len(w.raised)
    faults['backlog_reject'] = len(F.rejected)
    faults['history_eviction'] = len(F.evicts)
    faults['duplicate_dispatch'] = max(0, sum(1 for d in F.disps if d[5] == 'ok' and not d[2].startswith('fwd:')) - len(F.accepted_events))
    faults['bus_stop'] = len(F.stops)
    faults['task_cancel'] = len(F.cancels)
    faults['slow_sync_handler'] = sum(1 for h in sc['handlers'] for op in h.get('prog', []) if op[0] == 'burn')
    for k, n in (res.get('io_fired') or {}).items():
        faults['io_' + k] = n
    if res.get('io_ops') and any((sc.get('faults', {}).get('io', {}).get('latency') or [0])):
        faults['io_latency'] = len(res['io_ops'])
    out['faults'] = {k: v for k, v in faults.items() if v}
    probes = collections.Counter()
    probes['inline_processing'] = sum(1 for lst in F.pe.values() for p in lst if p[2].startswith('inline'))
    # an inline processing cut short by the cancellation of the handler doing it (its timeout): the path on which the
    # F28 repair (c5c063c) raises the idle flags
    probes['inline_processing_interrupted'] = sum(1 for lst in F.pe.values() for p in lst if p[2].startswith('inline') and p[3] and p[3][0] == 'CancelledError')
    probes['runloop_dequeued_while_lock_held'] = sum(1 for (b, e), lst in F.deq.items() for (s, m) in lst if m == 'runloop' and any(p[0] > s + 1 for p in F.pe.get((b, e), ())))
    probes['timers_due_together'] = res['multi_due']
    probes['forward_dispatch'] = sum(1 for d in F.disps if d[2].startswith('fwd:'))
    probes['in_handler_await'] = _inhandler_awaits(F)
    probes['poll_timeout_path'] = res['jumps']
    out['probes'] = {k: v for k, v in probes.items() if v}
    return out, w, F


def profiles_for(prop, tier='quick'):
    if prop in BUS_PROPS:
        profs = list(BUS_PROPS[prop]['profiles'])
        if prop == 'C10':
            profs.append(('timeout_enum', 3 if tier == 'quick' else 6))
        if tier == 'thorough':
            # schedule search: every program of every (generic) profile under 16 schedules
            profs += [('sched:' + p, w) for p, w in BUS_PROPS[prop]['profiles'] if isinstance(gen.PROFILES.get(p), dict)]
        return profs
    from . import special
    return special.PROFILES[prop]


def make_scenario(prop, profile, seed):
    if profile.startswith('sched:'):
        return gen.gen_sched(profile.split(':', 1)[1], seed)
    if profile in gen.PROFILES:
        return gen.gen(profile, seed)
    from . import special
    return special.make_scenario(prop, profile, seed)


def run_one(prop, sc):
    """Returns result dict with keys end, viol, digest, abstract, nontrivial, steps, vt, faults, probes."""
    if prop in BUS_PROPS and sc.get('world', 'bus') == 'bus':
        out, w, F = evaluate_bus(prop, sc)
        return out
    from . import special
    return special.run_one(prop, sc)
