"""Development tool: violation landscape per profile (not a registered check)."""
import sys, time, collections, json
sys.path.insert(0, '/verif')
from sim.world import run_scenario
from sim import gen, oracle, diagnose

def evaluate(sc):
    w, res = run_scenario(sc)
    F = oracle.Facts(sc, w.recs, w.final, res)
    raised = {}
    for a in F.acts.values():
        if a.how and a.how.startswith('raise:') and a.id in w.raised: raised[a.id] = 'raise'
    for act in w.raised:
        raised.setdefault(act, 'return_exc')
    V = []
    for fn in (oracle.c01, oracle.c02, oracle.c03, oracle.c04, oracle.c05, oracle.c06, oracle.c07, oracle.c09, oracle.c10, oracle.c13, oracle.c14, oracle.c15, oracle.c16):
        V += fn(F)
    V += oracle.c11(F, raised)
    for v in V: v['cause'] = diagnose.diagnose(F, v)
    return w, res, F, V

if __name__ == '__main__':
    prof = sys.argv[1]; n = int(sys.argv[2]); start = int(sys.argv[3]) if len(sys.argv) > 3 else 0
    t0 = time.time(); agg = collections.Counter(); ex = {}; ends = collections.Counter()
    for s in range(start, start + n):
        sc = gen.gen(prof, s)
        w, res, F, V = evaluate(sc)
        ends[res['end'][:30]] += 1
        for c in set(v['clause']+' <'+v['cause']+'>' for v in V):
            agg[c] += 1; ex.setdefault(c, s)
    dt = time.time() - t0
    print(f'{prof}: {n} runs {dt:.1f}s = {n/dt:.0f}/s ends={dict(ends)}')
    for k, v in sorted(agg.items()): print('  ', k, v, 'e.g. seed', ex[k])
