"""Virtual-time asyncio event loop: the scheduler every simulated run executes on.

Real asyncio Tasks/Futures/Queues/timeouts run on it unchanged; only the clock and the
selector are simulated.  One loop instance = one simulated run.

 * time() is a virtual clock.  When nothing is ready the clock jumps to exactly the
   `when` of the next timer (plus an armed stall, see `stalls`).
 * Ready callbacks run FIFO, timers in (when, insertion) order - the stdlib contract.
 * Every callback execution is a numbered *step*; `step_hook(k)` fires before step k
   (fault injection at crash points) and `after_hook()` after each step (online
   invariants).
 * Verdicts a real-time test can never reach: QUIESCENT (nothing ready, nothing
   scheduled), LIVELOCK (too many steps with the clock standing still), SILENCE (the
   workload reports no progress for `silence` virtual seconds while someone waits),
   HORIZON, STEPS.
"""
from __future__ import annotations

import asyncio
import heapq
from asyncio import events


class SimStop(Exception):
    """Raised out of run_until_complete when the simulation was cut by a verdict."""

    def __init__(self, verdict: str):
        super().__init__(verdict)
        self.verdict = verdict


class _NoSelector:
    def close(self):
        pass


class SimLoop(asyncio.BaseEventLoop):
    def __init__(self, horizon: float = 1e9, max_steps: int = 300_000, livelock_steps: int = 50_000):
        super().__init__()
        self._now = 0.0
        self._clock_resolution = 1e-9
        self._selector = _NoSelector()
        self.horizon = horizon
        self.max_steps = max_steps
        self.livelock_steps = livelock_steps
        self.steps = 0  # callbacks executed
        self.iterations = 0
        self.jumps = 0  # clock advances
        self._steps_at_last_jump = 0
        self.verdict: str | None = None
        # faults
        self.stalls: list[list[float]] = []  # [[t, extra], ...] sorted by t; consumed when fired
        self.stalls_fired = 0
        self.multi_due = 0  # iterations in which >=2 timers became due together
        self.step_hook = None  # callable(step_no) run before callback number step_no
        self.after_hook = None  # callable() run after each callback
        self.silence = None  # (callable()->last progress time or None if nobody waits, limit)
        self.thread_calls = 0
        self.thread_latency = 0.001
        self.progress = None  # callable() -> monotone progress counter of the workload (None: unknown)
        self._last_progress = None
        # every task gets a creation ordinal: asyncio.all_tasks() is a set (id()-hash order), anything that walks
        # over "all tasks" (cancel-all fault, teardown) must do so in creation order to stay deterministic
        self._task_seq = 0

        def factory(loop, coro, **kwargs):
            t = asyncio.Task(coro, loop=loop, **kwargs)
            loop._task_seq += 1
            t._sim_order = loop._task_seq
            return t

        self.set_task_factory(factory)

    def tasks_in_creation_order(self):
        return sorted((t for t in asyncio.all_tasks(self)), key=lambda t: getattr(t, '_sim_order', 0))

    # --- clock -----------------------------------------------------------------
    def time(self) -> float:
        return self._now

    def burn(self, d: float) -> None:
        """A synchronous piece of code hogs the CPU for d virtual seconds."""
        if d > 0:
            self._now += d

    # --- things that must not happen in simulation --------------------------------
    def _write_to_self(self):
        pass

    def _process_events(self, event_list):
        pass

    def run_in_executor(self, executor, func, *args):
        """No real thread: the function runs synchronously inside the loop after `thread_latency` virtual seconds
        (a deterministic model of one thread hop; the caller is suspended meanwhile and can be cancelled)."""
        self.thread_calls += 1
        fut = self.create_future()

        def run():
            if fut.done():
                return
            try:
                fut.set_result(func(*args))
            except BaseException as e:  # noqa
                fut.set_exception(e)

        self.call_later(self.thread_latency, run)
        return fut

    def call_soon_threadsafe(self, callback, *args, context=None):
        return self.call_soon(callback, *args, context=context)

    # --- the scheduler ------------------------------------------------------------
    def _cut(self, verdict: str) -> None:
        if self.verdict is None:
            self.verdict = verdict
        self._stopping = True

    def _run_once(self):
        self.iterations += 1
        sched = self._scheduled
        # drop cancelled timers (all of them: cheap at our sizes, and keeps heads exact)
        if self._timer_cancelled_count:
            live = [h for h in sched if not h._cancelled]
            for h in sched:
                if h._cancelled:
                    h._scheduled = False
            if len(live) != len(sched):
                heapq.heapify(live)
                self._scheduled = sched = live
            self._timer_cancelled_count = 0

        ready = self._ready
        if not ready and not self._stopping:
            if not sched:
                self._cut('QUIESCENT')
                return
            when = sched[0]._when
            if when > self._now:
                target = when
                if self.stalls and self.stalls[0][0] <= when:
                    target = when + self.stalls.pop(0)[1]
                    self.stalls_fired += 1
                if self.silence is not None:
                    last, limit = self.silence[0](), self.silence[1]
                    if last is not None and target - last > limit:
                        self._cut('SILENCE')
                        return
                if target > self.horizon:
                    self._cut('HORIZON')
                    return
                self._now = target
                self.jumps += 1
                self._steps_at_last_jump = self.steps

        end_time = self._now + self._clock_resolution
        ndue = 0
        while sched:
            handle = sched[0]
            if handle._when >= end_time:
                break
            handle = heapq.heappop(sched)
            handle._scheduled = False
            ready.append(handle)
            ndue += 1
        if ndue >= 2:
            self.multi_due += 1

        ntodo = len(ready)
        step_hook = self.step_hook
        after_hook = self.after_hook
        for _ in range(ntodo):
            handle = ready.popleft()
            if handle._cancelled:
                continue
            self.steps += 1
            if step_hook is not None:
                step_hook(self.steps)
                if handle._cancelled:
                    continue
            handle._run()
            if after_hook is not None:
                after_hook()
        handle = None
        if self.steps - self._steps_at_last_jump > self.livelock_steps:
            # a busy zero-time workload is not a livelock: the workload must also have stopped making progress
            p = self.progress() if self.progress is not None else None
            if p is not None and p != self._last_progress:
                self._last_progress = p
                self._steps_at_last_jump = self.steps
            else:
                self._cut('LIVELOCK')
        elif self.steps > self.max_steps:
            self._cut('STEPS')

    def run_sim(self, coro):
        """run_until_complete that converts a cut into SimStop(verdict)."""
        self.verdict = None
        fut = asyncio.ensure_future(coro, loop=self)
        try:
            return self.run_until_complete(fut)
        except RuntimeError as e:
            if 'Event loop stopped before Future completed' in str(e):
                raise SimStop(self.verdict or 'STOPPED') from None
            raise


def teardown(loop: SimLoop, rounds: int = 6) -> int:
    """Cancel and drain every task, close the loop.  Returns number of undrainable tasks."""
    loop.step_hook = None
    loop.after_hook = None
    loop.silence = None
    loop.progress = None
    loop.stalls = []
    loop.horizon = float('inf')
    left = 0
    try:
        for _ in range(rounds):
            tasks = [t for t in loop.tasks_in_creation_order() if not t.done()]
            if not tasks:
                break
            for t in tasks:
                t.cancel()
            loop.steps = 0
            loop._steps_at_last_jump = 0
            loop.max_steps = 20_000
            loop.livelock_steps = 20_000
            loop._stopping = False
            loop.verdict = None
            try:
                loop.run_until_complete(asyncio.wait(tasks, timeout=1.0))
            except BaseException:
                break
        left = len([t for t in asyncio.all_tasks(loop) if not t.done()])
        for t in asyncio.all_tasks(loop):
            if not t.done():
                t._log_destroy_pending = False
    except BaseException:
        left = -1
    events._set_running_loop(None)
    asyncio.set_event_loop(None)
    try:
        loop.close()
    except BaseException:
        pass
    return left
