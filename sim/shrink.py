"""Scenario minimisation (bounded delta debugging over the JSON scenario)."""
from __future__ import annotations

import copy


def _used_buses(sc):
    used = set()
    for h in sc['handlers']:
        used.add(h['bus'])
        if h.get('kind') == 'forward':
            used.add(h['to'])
        for op in h.get('prog', []):
            if op[0] in ('dispatch', 'dispatch_await', 'dispatch_noloop', 'redispatch', 'redispatch_self'):
                used.add(op[1])
    for c in sc['callers']:
        for op in c['prog']:
            if op[0] in ('dispatch', 'dispatch_await', 'redispatch', 'wait_idle', 'stop', 'expect'):
                used.add(op[1])
    for k, a in sc.get('faults', {}).get('at_step', []):
        if a[0] in ('stop', 'cancel_runloop'):
            used.add(a[1])
    return used


def _cand_retry(sc):
    for i in range(len(sc['outcomes'])):
        if len(sc['outcomes']) > 1:
            s = copy.deepcopy(sc)
            del s['outcomes'][i]
            yield s
    if sc['retries'] > 0:
        s = copy.deepcopy(sc)
        s['retries'] -= 1
        yield s
    if sc.get('stalls'):
        s = copy.deepcopy(sc)
        s['stalls'] = []
        yield s
    if sc.get('cancel_at') is not None:
        s = copy.deepcopy(sc)
        s['cancel_at'] = None
        yield s
    if sc.get('retry_on') is not None:
        s = copy.deepcopy(sc)
        s['retry_on'] = None
        yield s
    for key, simple in (('wait', 1), ('backoff', 1.0), ('timeout', 1)):
        if sc[key] != simple:
            s = copy.deepcopy(sc)
            s[key] = simple
            yield s
    for i, o in enumerate(sc['outcomes']):
        if o[0] in ('raise', 'ok', 'raise_timeout') and o[1] != 0.0:
            s = copy.deepcopy(sc)
            s['outcomes'][i][1] = 0.0
            yield s


def _cand_sem(sc):
    if len(sc['loops']) > 1:
        for i in range(len(sc['loops'])):
            s = copy.deepcopy(sc)
            del s['loops'][i]
            yield s
    for li, lp in enumerate(sc['loops']):
        for ci in range(len(lp['callers'])):
            if len(lp['callers']) > 1:
                s = copy.deepcopy(sc)
                del s['loops'][li]['callers'][ci]
                yield s
    for li, lp in enumerate(sc['loops']):
        for ci, c in enumerate(lp['callers']):
            if c.get('cancel_at') is not None:
                s = copy.deepcopy(sc)
                s['loops'][li]['callers'][ci]['cancel_at'] = None
                yield s
            if c['arrive'] != 0.0:
                s = copy.deepcopy(sc)
                s['loops'][li]['callers'][ci]['arrive'] = 0.0
                yield s
            if c['body'] != ['ok', 0.5]:
                s = copy.deepcopy(sc)
                s['loops'][li]['callers'][ci]['body'] = ['ok', 0.5]
                yield s
    for fi, f in enumerate(sc['funcs']):
        for key, simple in (('retries', 0), ('scope', 'global'), ('lax', False)):
            if f[key] != simple:
                s = copy.deepcopy(sc)
                s['funcs'][fi][key] = simple
                yield s


def candidates(sc):
    """Yield simpler variants of sc, most aggressive first."""
    if sc.get('world') == 'retry':
        yield from _cand_retry(sc)
        return
    if sc.get('world') == 'sem':
        yield from _cand_sem(sc)
        return
    # drop a caller
    for i in range(len(sc['callers'])):
        if len(sc['callers']) > 1:
            s = copy.deepcopy(sc)
            del s['callers'][i]
            # cancel_caller indices shift: drop such faults/ops conservatively
            yield s
    # drop a handler
    for i in range(len(sc['handlers'])):
        s = copy.deepcopy(sc)
        del s['handlers'][i]
        yield s
    # drop an unused bus (keep names stable)
    used = _used_buses(sc)
    for i, b in enumerate(sc['buses']):
        if b['name'] not in used and len(sc['buses']) > 1:
            s = copy.deepcopy(sc)
            del s['buses'][i]
            perm = s.get('bus_order', {}).get('perm')
            if perm:
                s['bus_order']['perm'] = [p - (1 if p > i else 0) for p in perm if p != i]
            yield s
    # drop faults
    f = sc.get('faults', {})
    for key in ('stalls', 'at_step'):
        for i in range(len(f.get(key, []))):
            s = copy.deepcopy(sc)
            del s['faults'][key][i]
            yield s
    if f.get('io', {}).get('faults'):
        for k in list(f['io']['faults']):
            s = copy.deepcopy(sc)
            del s['faults']['io']['faults'][k]
            yield s
    # drop an op
    for where, lst in (('handlers', sc['handlers']), ('callers', sc['callers'])):
        for i, h in enumerate(lst):
            prog = h.get('prog', [])
            for j in range(len(prog)):
                s = copy.deepcopy(sc)
                del s[where][i]['prog'][j]
                yield s
    # simplify an op
    for where, lst in (('handlers', sc['handlers']), ('callers', sc['callers'])):
        for i, h in enumerate(lst):
            for j, op in enumerate(h.get('prog', [])):
                if op[0] == 'pause' and op[1] != 0.0:
                    for v in (0.0, 0.01):
                        if op[1] != v:
                            s = copy.deepcopy(sc)
                            s[where][i]['prog'][j] = ['pause', v]
                            yield s
                elif op[0] == 'yield' and op[1] > 1:
                    s = copy.deepcopy(sc)
                    s[where][i]['prog'][j] = ['yield', 1]
                    yield s
                elif op[0] == 'dispatch_await':
                    s = copy.deepcopy(sc)
                    s[where][i]['prog'][j] = ['dispatch'] + op[1:]
                    yield s
                if op[0] in ('dispatch', 'dispatch_await') and op[3]:
                    s = copy.deepcopy(sc)
                    s[where][i]['prog'][j] = [op[0], op[1], op[2], {}, op[4]]
                    yield s
    # handler kind / pattern simplification
    for i, h in enumerate(sc['handlers']):
        if h.get('kind') not in ('async', 'forward', 'sync'):
            s = copy.deepcopy(sc)
            s['handlers'][i]['kind'] = 'async' if h['kind'].startswith('a') else 'sync'
            yield s
    if sc.get('max_depth', 2) > 1:
        s = copy.deepcopy(sc)
        s['max_depth'] = sc['max_depth'] - 1
        yield s
    order = sc.get('bus_order') or {}
    if order.get('rotate_every'):
        s = copy.deepcopy(sc)
        s['bus_order']['rotate_every'] = 0
        yield s
    if order.get('perm') and order['perm'] != sorted(order['perm']):
        s = copy.deepcopy(sc)
        s['bus_order']['perm'] = sorted(order['perm'])
        yield s
    for i, b in enumerate(sc['buses']):
        if b.get('parallel'):
            s = copy.deepcopy(sc)
            s['buses'][i]['parallel'] = False
            yield s


def shrink(sc, still_fails, max_runs=400):
    """Greedy fixpoint: accept a candidate iff still_fails(candidate).  Returns (scenario, runs)."""
    runs = 0
    cur = sc
    progress = True
    while progress and runs < max_runs:
        progress = False
        for cand in candidates(cur):
            if runs >= max_runs:
                break
            runs += 1
            try:
                ok = still_fails(cand)
            except Exception:
                ok = False
            if ok:
                cur = cand
                progress = True
                break
    return cur, runs
