"""Worlds for properties that do not run on the generic bus world (filled in per property)."""
PROFILES = {}
NONTRIVIAL = {}


def make_scenario(prop, profile, seed):
    raise KeyError(profile)


def run_one(prop, sc):
    raise KeyError(prop)
