"""Worlds for properties that do not run on the generic bus world: C19 (retry), C20 (semaphores)."""
from . import retry_world as rw

PROFILES = {
    'C19': [('retry', 3), ('retry_cancel_enum', 2)],
    'C20': [('sem', 1)],
}
NONTRIVIAL = {
    'C19': ('>=2 attempts were made, or the caller was cancelled mid-flight', None),
    'C20': ('>=1 caller had to wait for a slot, timed out acquiring, or was admitted by the lax rule', None),
}


def make_scenario(prop, profile, seed):
    if profile == 'retry':
        return rw.gen_retry(seed)
    if profile == 'retry_cancel_enum':
        # 64 consecutive seeds: cancel at every distinct instant of the base run's model (+/- 1us and exactly)
        base, i = seed // 64, seed % 64
        sc = rw.gen_retry(base, cancel_at=None)
        sc['cancel_at'] = None
        sc['stalls'] = []
        starts, want, tend, ties = rw.retry_model(sc)
        instants = sorted(set([0.0] + starts + [tend] + [s + sc['timeout'] for s in starts]))
        pts = []
        for t in instants:
            pts += [max(0.0, t - 1e-6), t, t + 1e-6, t + (sc['timeout'] / 3)]
        sc['cancel_at'] = round(pts[i % len(pts)], 9)
        sc['profile'] = 'retry_cancel_enum'
        sc['seed'] = seed
        return sc
    if profile == 'sem':
        return rw.gen_sem(seed)
    raise KeyError(profile)


def run_one(prop, sc):
    if sc.get('world') == 'retry':
        res = rw.run_retry(sc)
        if str(res['end']).startswith('harness'):
            return {'end': res['end'], 'harness': res['end']}
        viol = rw.check_retry(sc, res)
        sig = (tuple(res['calls']), res['out'], res['end_t'], res['end'])
        shape = (len(res['calls']), res['out'][0] if res['out'] else None, sc['retry_on'] is None, sc['cancel_at'] is not None,
                 tuple(o[0] for o in sc['outcomes'][:len(res['calls'])]))
        return {'end': res['end'], 'viol': viol, 'digest': rw.digest_of(sig), 'abstract': rw.digest_of(shape),
                'nontrivial': len(res['calls']) >= 2 or (res['out'] or [None])[0] == 'cancelled', 'steps': res['steps'], 'vt': res['vt'],
                'leftover': res['leftover'],
                'faults': {k: v for k, v in {'retry_attempt_raise': sum(1 for o in sc['outcomes'][:len(res['calls'])] if o[0].startswith('raise')),
                                              'retry_attempt_overrun': sum(1 for o in sc['outcomes'][:len(res['calls'])] if o[0] == 'overrun'),
                                              'caller_cancel': 1 if (res['out'] or [None])[0] == 'cancelled' else 0,
                                              'loop_stall': res['stalls_fired']}.items() if v},
                'probes': {'attempts': len(res['calls'])}}
    if sc.get('world') == 'sem':
        res = rw.run_sem(sc)
        if str(res['end']).startswith('harness'):
            return {'end': res['end'], 'harness': res['end']}
        viol = list(res['viol'])
        if res['end'] != 'ok':
            viol.append(rw.V('C20', 'hang', (res['end'],)))
        for v in viol:
            if v['clause'] in ('C20.runtime_error', 'C20.probe_error') and 'bound to a different event loop' in str(v.get('key')) + str(v.get('detail')):
                v['cause'] = 'F13'
        waited = any(t[2] == 'enter' for t in res['trace']) and _someone_waited(res['trace'])
        shape = tuple((t[2], t[3][-2:], t[4] if len(t) > 4 else None) for t in res['trace'])
        return {'end': res['end'], 'viol': viol, 'digest': rw.digest_of(res['trace']), 'abstract': rw.digest_of(shape),
                'nontrivial': bool(waited or res['overflows'] or res['acq_timeouts']), 'steps': res['steps'], 'vt': res['vt'], 'leftover': 0,
                'faults': {k: v for k, v in {'semaphore_acquire_timeout': res['acq_timeouts'], 'lax_overflow': res['overflows'], 'caller_cancel': res['cancels'],
                                              'second_event_loop': res['nloops'] - 1}.items() if v},
                'probes': {'waited_for_slot': int(waited)}}
    raise KeyError(prop)


def _someone_waited(trace):
    arrive = {}
    for t in trace:
        if t[2] == 'arrive':
            arrive[t[3]] = t[1]
        elif t[2] == 'enter' and t[3] in arrive and t[1] > arrive[t[3]] + 1e-9:
            return True
    return False
