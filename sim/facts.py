"""Facts: indexes over the recorded history of one bus-world run (properties C01-C11, C13-C16).

Every oracle takes Facts (indexes over the trace + final snapshot) and returns a list
of violation dicts {prop, clause, key, detail}.  `cause` is attached afterwards by
sim.diagnose.  Oracles only use the harness's own records and public bubus state.
"""
from __future__ import annotations

import collections

EPS = 1e-6
LATE = 5.0  # liveness bound in virtual seconds (generous multiple of the 0.1 s poll)


class Act:
    __slots__ = ('id', 'bus', 'ev', 'hi', 'enter_seq', 'exit_seq', 'how', 't_enter', 't_exit', 'hist_len', 'same_obj')

    def __init__(self, id, bus, ev, hi, seq, t):
        self.id, self.bus, self.ev, self.hi = id, bus, ev, hi
        self.enter_seq, self.t_enter = seq, t
        self.exit_seq = None
        self.how = None
        self.t_exit = None


class Await:
    __slots__ = ('actor', 'ev', 'b', 'e', 'tb', 'te', 'outcome', 'status', 'sig', 'results', 'same')

    def __init__(self, actor, ev, b, tb):
        self.actor, self.ev, self.b, self.tb = actor, ev, b, tb
        self.e = None
        self.te = None
        self.outcome = None
        self.status = None
        self.sig = None
        self.results = ()
        self.same = None


class Facts:
    def __init__(self, sc, recs, final, res):
        self.sc, self.recs, self.final, self.res = sc, recs, final, res
        self.end = res.get('end')
        self.settled = any(r[2] == 'settled' for r in recs)
        self.last_seq = recs[-1][0] if recs else 0
        self.last_t = recs[-1][1] if recs else 0.0
        self.bus_cfg = {b['name']: b for b in sc['buses']}
        self.handlers = sc['handlers']
        self.accepted = collections.OrderedDict()  # (bus, ev) -> seq of first accepted dispatch
        self.disps = []  # (seq, t, actor, bus, ev, outcome, histlen)
        self.rejected = []
        self.acts: dict[str, Act] = {}
        self.enters = collections.defaultdict(list)  # (bus, ev, hi) -> [act ids]
        self.awaits: list[Await] = []
        self.sig = {}  # ev -> seq of first completion signal
        self.sig_t = {}
        self.pe = collections.defaultdict(list)  # (bus, ev) -> [[b, e, mode, exc, tb, te]]
        self.deq = collections.defaultdict(list)  # (bus, ev) -> [(seq, mode)]
        self.creator = {}  # ev -> actor
        self.etype = {}
        self.sid = {}
        self.explicit_parent = {}
        self.stops = []  # [bus, b, e, tb, te, timeout, actor, outcome]
        self.idles = []  # [bus, b, e, tb, te, timeout, actor, outcome, state]
        self.expects = []
        self.evicts = []
        self.ebus = []
        self.cancels = []
        self.results_ops = []
        self.timeouts = {}  # ev -> event_timeout
        self.registered_at = {}  # handler index -> seq of its bus.on()
        self.runloop_exits = []  # (seq, bus)
        self.burn_total = 0.0  # virtual seconds of synchronous CPU hogging executed (nothing can be cancelled meanwhile)
        self.self_cancelled = []  # (seq, act): handler ended with CancelledError of its own making
        open_aw = {}
        open_pe = {}
        open_stop = {}
        open_idle = {}
        for r in recs:
            seq, t, k = r[0], r[1], r[2]
            if k == 'teardown':
                self.last_seq, self.last_t = seq, t
                break
            if k == 'cut':
                # records after the cut are teardown artefacts
                self.last_seq, self.last_t = seq, t
                break
            if k == 'new':
                self.creator[r[3]] = r[5]
                self.etype[r[3]] = r[4]
                self.sid[r[3]] = r[6]
                self.timeouts[r[3]] = r[7]
            elif k == 'burn':
                self.burn_total += r[4]
            elif k == 'runloop_exit':
                self.runloop_exits.append((seq, r[3]))
            elif k == 'raise_cancelled':
                self.self_cancelled.append((seq, r[3]))
            elif k == 'register':
                self.registered_at[r[3]] = seq
            elif k == 'disp':
                _, _, _, actor, bus, ev, outcome, hl = r
                self.disps.append((seq, t, actor, bus, ev, outcome, hl))
                if outcome == 'ok':
                    self.accepted.setdefault((bus, ev), seq)
                else:
                    self.rejected.append((seq, actor, bus, ev, outcome))
            elif k == 'enter':
                a = Act(r[6], r[3], r[4], r[5], seq, t)
                self.acts[a.id] = a
                self.enters[(a.bus, a.ev, a.hi)].append(a.id)
            elif k == 'exit':
                a = self.acts.get(r[3])
                if a is not None:
                    a.exit_seq, a.how, a.t_exit = seq, r[4], t
            elif k == 'aw_begin':
                aw = Await(r[3], r[4], seq, t)
                open_aw[(r[3], r[4])] = aw
                self.awaits.append(aw)
            elif k == 'aw_end':
                aw = open_aw.pop((r[3], r[4]), None)
                if aw is not None:
                    aw.e, aw.te, aw.outcome, aw.status, aw.sig, aw.results, aw.same = seq, t, r[5], r[6], r[7], r[8], r[9]
            elif k == 'sig':
                self.sig.setdefault(r[3], seq)
                self.sig_t.setdefault(r[3], t)
            elif k == 'pe_begin':
                x = [seq, None, r[5], None, t, None]
                self.pe[(r[3], r[4])].append(x)
                open_pe.setdefault((r[3], r[4]), []).append(x)
            elif k in ('pe_end', 'pe_exc'):
                lst = open_pe.get((r[3], r[4]))
                if lst:
                    x = lst.pop()
                    x[1], x[5] = seq, t
                    if k == 'pe_exc':
                        x[3] = (r[5], r[6])
            elif k == 'deq':
                self.deq[(r[3], r[4])].append((seq, r[5]))
            elif k == 'explicit_parent':
                self.explicit_parent[r[3]] = r[4]
            elif k == 'stop_begin':
                x = [r[4], seq, None, t, None, r[5], r[3], None, r[6]]
                open_stop[(r[3], r[4])] = x
                self.stops.append(x)
            elif k == 'stop_end':
                x = open_stop.pop((r[3], r[4]), None)
                if x is not None:
                    x[2], x[4], x[7] = seq, t, r[5]
            elif k == 'idle_begin':
                x = [r[4], seq, None, t, None, r[5], r[3], None, None]
                open_idle[(r[3], r[4])] = x
                self.idles.append(x)
            elif k == 'idle_end':
                x = open_idle.pop((r[3], r[4]), None)
                if x is not None:
                    x[2], x[4], x[7], x[8] = seq, t, r[5], r[6]
            elif k == 'evict':
                self.evicts.append((seq, r[3], r[4], r[5], r[6]))
            elif k == 'ebus':
                self.ebus.append((seq, r[3], r[4], r[5]))
            elif k == 'cancel':
                self.cancels.append((seq, t, r[3], r[4]))
            elif k == 'results':
                self.results_ops.append(r)
            elif k == 'expect_begin' or k == 'expect_end':
                self.expects.append(r)
        # ground truth tree: children of an event = events created by its activations and accepted somewhere
        self.accepted_events = {ev for (_, ev) in self.accepted}
        self.first_accept = {}
        for (b, ev), sq in self.accepted.items():
            if ev not in self.first_accept or sq < self.first_accept[ev]:
                self.first_accept[ev] = sq
        self.kids = collections.defaultdict(list)
        for ev, actor in self.creator.items():
            a = self.acts.get(actor)
            if a is not None and ev in self.accepted_events:
                self.kids[a.ev].append(ev)
        self._desc = {}
        # buses that were stopped (from the first stop_begin on)
        self.stopped_from = {}
        for x in self.stops:
            if x[8]:  # was running
                self.stopped_from.setdefault(x[0], x[1])
        for seq, t, target, by in self.cancels:
            if target.startswith('runloop:'):
                self.stopped_from.setdefault(target.split(':', 1)[1], seq)
            if target == 'ALL':
                for b in self.bus_cfg:
                    self.stopped_from.setdefault(b, seq)

    def desc(self, ev):
        d = self._desc.get(ev)
        if d is None:
            d = set()
            stack = [ev]
            while stack:
                x = stack.pop()
                for c in self.kids.get(x, ()):
                    if c not in d:
                        d.add(c)
                        stack.append(c)
            self._desc[ev] = d
        return d

    def matching_handlers(self, bus, ev, registered_before=None):
        """scenario handlers of `bus` whose pattern matches ev (only those registered before seq
        `registered_before`, if given; handlers never registered are excluded)"""
        typ = self.etype.get(ev)
        out = []
        for hi, h in enumerate(self.handlers):
            if h['bus'] == bus and h.get('kind') != 'forward' and h['pattern'] in (typ, '*'):
                ra = self.registered_at.get(hi)
                if ra is None:
                    continue
                if registered_before is not None and ra > registered_before:
                    continue
                out.append(hi)
        return out

    def live_at(self, seq):
        return [a for a in self.acts.values() if a.enter_seq < seq and (a.exit_seq is None or a.exit_seq > seq)]

    def awaiting_at(self, seq):
        """{actor: awaited event} for in-handler/caller awaits open at seq."""
        return {aw.actor: aw.ev for aw in self.awaits if aw.b < seq and (aw.e is None or aw.e > seq)}

    def processed(self, bus, ev, before=None):
        for x in self.pe.get((bus, ev), ()):
            if x[1] is not None and (before is None or x[1] < before):
                return True
        return False

    def restart_after_stop(self, bus, stop_begin_seq):
        """seq of the first dispatch attempt / wait_until_idle on `bus` after stop() began: by design that
        restarts the bus (and on this code base leaves a run loop spinning on the shut-down queue, F16)."""
        restart = None
        for seq, t, a_, bb, ev, oc, hl in self.disps:
            if bb == bus and seq > stop_begin_seq:
                restart = seq if restart is None else min(restart, seq)
        for y in self.idles:
            if y[0] == bus and y[1] > stop_begin_seq:
                restart = y[1] if restart is None else min(restart, y[1])
        return restart

    def bus_stopped_before(self, bus, seq=None):
        s = self.stopped_from.get(bus)
        return s is not None and (seq is None or s < seq)


