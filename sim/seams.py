"""Seams: every source of nondeterminism bubus touches is routed to the simulator here.

Nothing in /repo is modified: all seams are module attributes, class attributes or
public instance attributes (see DESIGN.md section 1).
"""
from __future__ import annotations

import asyncio
import datetime as _dt
import gc
import logging
import os
import sys
import types
import warnings
import weakref

REPO = os.environ.get('VERIF_REPO', '/repo')
if REPO not in sys.path:
    sys.path.insert(0, REPO)
sys.dont_write_bytecode = True
warnings.simplefilter('ignore')

import bubus.helpers as _helpers  # noqa: E402
import bubus.logging as _blogging  # noqa: E402
import bubus.models as _models  # noqa: E402
import bubus.service as _service  # noqa: E402

assert os.path.realpath(_service.__file__).startswith(os.path.realpath(REPO)), (
    f'bubus imported from {_service.__file__}, expected under {REPO}'
)

_REAL_ANYIO = _service.anyio
_BASE = _dt.datetime(2030, 1, 1, tzinfo=_dt.UTC)


class SimDateTime(_dt.datetime):
    """datetime whose now() = epoch + virtual time + a strictly increasing microsecond counter."""

    _loop = None
    _tick = 0

    @classmethod
    def now(cls, tz=None):
        cls._tick += 1
        t = cls._loop.time() if cls._loop is not None else 0.0
        return _BASE + _dt.timedelta(seconds=t, microseconds=cls._tick)


class OrderedWeakSet:
    """Replacement for EventBus.all_instances (a WeakSet iterated in id()-hash order).

    Iteration order is creation order permuted by `perm`; optionally rotated by one
    position every `rotate_every`-th iteration (the real container's order is arbitrary
    but fixed between mutations; rotation models mutation-induced rehash).
    """

    def __init__(self, perm=None, rotate_every=0):
        self._refs: list[weakref.ref] = []
        self.perm = list(perm) if perm else None
        self.rotate_every = rotate_every
        self._iters = 0

    def _live(self):
        out = []
        for r in self._refs:
            o = r()
            if o is not None:
                out.append(o)
        return out

    def add(self, o):
        if not any(r() is o for r in self._refs):
            self._refs.append(weakref.ref(o))

    def discard(self, o):
        self._refs = [r for r in self._refs if r() is not None and r() is not o]

    def __contains__(self, o):
        return any(r() is o for r in self._refs)

    def __len__(self):
        return len(self._live())

    def __iter__(self):
        live = self._live()
        if self.perm:
            n = len(live)
            order = [i for i in self.perm if i < n] + [i for i in range(n) if i not in self.perm]
            live = [live[i] for i in order]
        if self.rotate_every:
            self._iters += 1
            k = (self._iters // self.rotate_every) % max(1, len(live))
            live = live[k:] + live[:k]
        return iter(live)


class _SimTime:
    def __init__(self, loop):
        self._loop = loop

    def time(self):
        # an epoch-like value: code that compares time.time() with a zero-initialised "last check" must see what it
        # sees in a real process (the first check is always due)
        return 1_900_000_000.0 + self._loop.time()

    def __getattr__(self, name):
        import time as _t

        return getattr(_t, name)


class ErrorLog(logging.Handler):
    """Captures 'was reported' facts: ERROR records on the bubus loggers."""

    def __init__(self):
        super().__init__(level=logging.ERROR)
        self.records: list[str] = []

    def emit(self, record):
        try:
            self.records.append(record.getMessage()[:200])
        except Exception:
            self.records.append('<unformattable>')


_error_log = ErrorLog()
_loggers_ready = False


def _setup_logging():
    global _loggers_ready
    if _loggers_ready:
        return
    for name in ('bubus', 'bubus.helpers'):
        lg = logging.getLogger(name)
        lg.handlers = [_error_log]
        lg.propagate = False
        lg.setLevel(logging.ERROR)
    logging.getLogger('asyncio').setLevel(logging.CRITICAL)
    _loggers_ready = True


def install(loop, bus_perm=None, rotate_every=0, fs=None, queue_cls=None):
    """Point every seam at `loop` (one call per simulated run)."""
    _setup_logging()
    _error_log.records = []
    gc.disable()
    SimDateTime._loop = loop
    SimDateTime._tick = 0
    _models.datetime = SimDateTime
    _blogging.datetime = SimDateTime
    _service.EventBus.all_instances = OrderedWeakSet(bus_perm, rotate_every)
    _service._global_eventbus_lock = None
    _helpers.time = _SimTime(loop)
    _helpers.PSUTIL_AVAILABLE = False
    _helpers._active_retry_operations = 0
    _helpers._last_overload_check = 0.0
    if fs is not None:
        _service.anyio = fs.anyio_namespace()
    else:
        _service.anyio = _NoIO()
    if queue_cls is not None:
        _service.CleanShutdownQueue = queue_cls
    asyncio.set_event_loop(loop)
    return _error_log


class _NoIO:
    def __getattr__(self, name):
        raise RuntimeError('SIM: real anyio I/O attempted in a run without a simulated file system')


def reset_semaphores():
    _helpers.GLOBAL_RETRY_SEMAPHORES.clear()


def uninstall():
    _service.anyio = _REAL_ANYIO
    _service.CleanShutdownQueue = _ORIG_QUEUE
    SimDateTime._loop = None
    gc.collect()


_ORIG_QUEUE = _service.CleanShutdownQueue


# --------------------------------------------------------------------------------
# Simulated WAL file system (S7)
# --------------------------------------------------------------------------------
class SimFS:
    """In-memory append-only files with virtual latency and injected faults.

    `faults` maps the 0-based index of an I/O operation (mkdir, open, write, close
    counted in the order they are issued) to a fault kind:
      mkdir_error, open_error, write_error, short_write, close_error
    `latency` is [mkdir(ignored, sync), open, write] virtual seconds.
    """

    def __init__(self, loop, faults=None, latency=(0.0, 0.002, 0.003)):
        self.loop = loop
        self.files: dict[str, str] = {}
        self.faults = {int(k): v for k, v in (faults or {}).items()}
        self.latency = latency
        self.ops: list[tuple] = []  # (index, kind, path, fault_fired)
        self.fired: dict[str, int] = {}
        self.on_op = None  # callback(kind, path, fault, nbytes)
        self.texts: list[tuple] = []  # (path, text, 'full'|'short') per write that reached the file

    def _next(self, kind, path):
        idx = len(self.ops)
        fault = self.faults.get(idx)
        applicable = {
            'mkdir': ('mkdir_error',),
            'open': ('open_error', 'open_error_runtime'),
            'write': ('write_error', 'short_write', 'write_error_value'),
            'close': ('close_error',),
        }[kind]
        if fault not in applicable:
            fault = None
        self.ops.append((idx, kind, path, fault))
        if fault:
            self.fired[fault] = self.fired.get(fault, 0) + 1
        return fault

    def path(self, p: str) -> 'SimPath':
        return SimPath(self, p)

    def anyio_namespace(self):
        fs = self

        async def open_file(path, mode='r', encoding=None, **kw):
            fault = fs._next('open', str(path))
            if fs.latency[1]:
                await asyncio.sleep(fs.latency[1])
            if fs.on_op:
                fs.on_op('open', str(path), fault, 0)
            if fault == 'open_error':
                raise PermissionError(13, 'Permission denied (injected)')
            if fault == 'open_error_runtime':
                raise RuntimeError('cannot open file: worker thread pool is shut down (injected, not an OSError)')
            assert 'a' in mode, f'WAL must be opened for append, got mode {mode!r}'
            return SimFile(fs, str(path))

        return types.SimpleNamespace(open_file=open_file)


class SimFile:
    def __init__(self, fs: SimFS, path: str):
        self.fs = fs
        self.path = path
        self.closed = False

    async def __aenter__(self):
        return self

    async def __aexit__(self, *exc):
        await self.aclose()
        return False

    async def aclose(self):
        if self.closed:
            return
        self.closed = True
        fault = self.fs._next('close', self.path)
        if self.fs.on_op:
            self.fs.on_op('close', self.path, fault, 0)
        if fault == 'close_error':
            raise OSError(5, 'Input/output error on close (injected)')

    async def write(self, s: str):
        fs = self.fs
        fault = fs._next('write', self.path)
        if fs.latency[2]:
            await asyncio.sleep(fs.latency[2])
        if fault == 'write_error':
            if fs.on_op:
                fs.on_op('write', self.path, fault, 0)
            raise OSError(28, 'No space left on device (injected)')
        if fault == 'write_error_value':
            if fs.on_op:
                fs.on_op('write', self.path, fault, 0)
            raise ValueError('I/O operation on closed file (injected, not an OSError)')
        if fault == 'short_write':
            n = max(1, len(s) // 2)
            fs.files[self.path] = fs.files.get(self.path, '') + s[:n]
            fs.texts.append((self.path, s[:n], 'short'))
            if fs.on_op:
                fs.on_op('write', self.path, fault, n)
            raise OSError(5, 'Input/output error after short write (injected)')
        fs.files[self.path] = fs.files.get(self.path, '') + s
        fs.texts.append((self.path, s, 'full'))
        if fs.on_op:
            fs.on_op('write', self.path, None, len(s))
        return len(s)


class SimPath:
    """Just enough of pathlib.Path for _default_wal_handler: .parent.mkdir(), str()."""

    def __init__(self, fs: SimFS, p: str):
        self.fs = fs
        self.p = p

    @property
    def parent(self):
        return SimPath(self.fs, self.p.rsplit('/', 1)[0] or '/')

    def mkdir(self, parents=False, exist_ok=False, mode=0o777):
        fault = self.fs._next('mkdir', self.p)
        if self.fs.on_op:
            self.fs.on_op('mkdir', self.p, fault, 0)
        if fault == 'mkdir_error':
            raise PermissionError(13, 'Permission denied: mkdir (injected)')

    def __str__(self):
        return self.p

    def __fspath__(self):
        return self.p

    def __bool__(self):
        return True
